"""Tier V extractor: builds one Verus file per template from /repo's *current* sources.

A template (contracts/verus/*.rs.tmpl) is Verus text plus directives.  Everything that is
executable code of unimock is copied verbatim from the working tree at run time; the template
carries only stand-in declarations, contracts, stubs for declared abstraction points and lemmas.

File-level directives
  //@V props=C02,C03 tier=quick              header (required)
  //@strip alloc:: state:: teardown::        R5: path prefixes removed from every extracted text
  //@props C02                               props of the raw (lemma) functions that follow

Item directives
  //@item <file> /<regex of first line>/ [fieldspub]     copy a struct/enum/type item verbatim
  //@fn <file> impl=/<regex>/|top name=<fn> [ret=<id>] [props=..] [canary=skip] [rename=<new>]
      raw lines   : requires/ensures/decreases clauses, spliced between signature and body
      //@rewrite <<<exact text>>> => <<<replacement>>>   R3 abstraction point (logged); must match exactly once
      //@annot   <<<exact text>>> => <<<replacement>>>   insert-only annotation (replacement must contain the
                                                        original text as a substring; e.g. closure ensures)
      //@closure <<<|params|>>> => <<<|typed params| -> (o: T) ensures E>>>   wrap the closure body in a block
      //@invariant <n>      raw lines until //@endinvariant: loop invariant for the n-th loop of the body
      //@afterloop <n> <<<ghost stmt>>>   inserted right after the n-th loop of the body (insert-only)
      //@loopstart <n> <<<ghost stmt>>>   inserted as the first statement of the n-th loop's body (insert-only)
  //@end

Automatic rewrite rules, applied to every extracted body and logged:
  R1  panic!(..) / unreachable!(..)  -> __panic_<fn>_<n>()     (stub with the permitted-panic `requires` in the template)
  R2  format!(..) -> __format(), eprintln!(..) -> __eprintln()
  Rcfg  #[cfg(feature = "std")] / #[cfg(not(feature = "std"))] resolved for the feature set under check
  Rvis  pub(crate)/pub(super)/pub(in ..) -> pub ; attributes (#[track_caller], #[inline], #[cfg_attr..]) dropped
"""
import os
import re

from common import REPO, Undecided


# ---------------------------------------------------------------- lexical helpers

def skip_noncode(s, i):
    """If position i starts a string/char/comment, return index after it, else i."""
    n = len(s)
    c = s[i]
    if c == '"':
        j = i + 1
        while j < n:
            if s[j] == "\\":
                j += 2
                continue
            if s[j] == '"':
                return j + 1
            j += 1
        return n
    if c == "r" and re.match(r'r#*"', s[i:i + 8]) and (i == 0 or not (s[i - 1].isalnum() or s[i - 1] == "_")):
        m = re.match(r'r(#*)"', s[i:])
        hashes = m.group(1)
        end = s.find('"' + hashes, i + len(m.group(0)))
        return n if end < 0 else end + 1 + len(hashes)
    if c == "'":
        # char literal or lifetime
        m = re.match(r"'(\\.[^']*|[^\\'])'", s[i:i + 12])
        if m:
            return i + len(m.group(0))
        return i + 1
    if s.startswith("//", i):
        j = s.find("\n", i)
        return n if j < 0 else j
    if s.startswith("/*", i):
        depth = 1
        j = i + 2
        while j < n and depth:
            if s.startswith("/*", j):
                depth += 1
                j += 2
            elif s.startswith("*/", j):
                depth -= 1
                j += 2
            else:
                j += 1
        return j
    return i


def match_close(s, i, open_c, close_c):
    """s[i] == open_c; return index of the matching close_c."""
    assert s[i] == open_c, (s[i:i + 20], open_c)
    depth = 0
    n = len(s)
    while i < n:
        j = skip_noncode(s, i)
        if j != i:
            i = j
            continue
        c = s[i]
        if c == open_c:
            depth += 1
        elif c == close_c:
            depth -= 1
            if depth == 0:
                return i
        i += 1
    raise Undecided("unbalanced %s%s" % (open_c, close_c))


def find_code(s, pat, start=0):
    """Find regex `pat` in code (not in strings/comments); return match or None."""
    rx = re.compile(pat)
    i = start
    n = len(s)
    while i < n:
        j = skip_noncode(s, i)
        if j != i:
            i = j
            continue
        m = rx.match(s, i)
        if m:
            return m
        i += 1
    return None


def first_brace_at_depth0(s, start):
    i = start
    depth = 0
    n = len(s)
    while i < n:
        j = skip_noncode(s, i)
        if j != i:
            i = j
            continue
        c = s[i]
        if c in "([":
            depth += 1
        elif c in ")]":
            depth -= 1
        elif c == "{" and depth == 0:
            return i
        elif c == ";" and depth == 0:
            return -1
        i += 1
    return -1


# ---------------------------------------------------------------- item location

def read_repo(file):
    p = os.path.join(REPO, file)
    if not os.path.exists(p):
        raise Undecided("lost anchor: %s does not exist" % file)
    return open(p).read()


def find_block(src, regex, what):
    """Find the line matching regex and return (start_of_line, index_of_open_brace, index_of_close_brace)."""
    ms = [m for m in re.finditer(r"(?m)^[ \t]*" + regex, src)]
    ms = [m for m in ms if skip_line_is_code(src, m.start())]
    if len(ms) != 1:
        raise Undecided("lost anchor: %s /%s/ matched %d times" % (what, regex, len(ms)))
    start = ms[0].start()
    ob = first_brace_at_depth0(src, ms[0].start())
    if ob < 0:
        raise Undecided("lost anchor: %s /%s/ has no body" % (what, regex))
    cb = match_close(src, ob, "{", "}")
    return start, ob, cb


def find_blocks(src, regex, what):
    """All blocks whose first line matches regex: [(start_of_line, open_brace, close_brace)]."""
    res = []
    for m in re.finditer(r"(?m)^[ \t]*" + regex, src):
        if not skip_line_is_code(src, m.start()):
            continue
        ob = first_brace_at_depth0(src, m.start())
        if ob < 0:
            continue
        res.append((m.start(), ob, match_close(src, ob, "{", "}")))
    if not res:
        raise Undecided("lost anchor: %s /%s/ not found" % (what, regex))
    return res


def skip_line_is_code(src, pos):
    ls = src.rfind("\n", 0, pos) + 1
    return not src[ls:pos + 3].lstrip().startswith("//")


ENABLED_FEATURES = {"std", "pretty-print"}


def fn_cfg_enabled(src, pos):
    """Evaluate #[cfg(feature = "..")] / #[cfg(not(feature = ".."))] attributes directly above an item (default feature set)."""
    lines = src[:pos].split("\n")[:-1]
    k = len(lines) - 1
    while k >= 0 and (lines[k].strip().startswith("#[") or lines[k].strip().startswith("///") or lines[k].strip() == ""):
        t = lines[k].strip()
        m = re.match(r'#\[cfg\((not\()?feature = "([^"]+)"\)?\)\]', t)
        if m:
            on = m.group(2) in ENABLED_FEATURES
            if (m.group(1) and on) or (not m.group(1) and not on):
                return False
        if t == "":
            break
        k -= 1
    return True


def find_fn(src, lo, hi, name, want_depth):
    """Find `fn name` between lo..hi whose brace depth (relative to lo) is want_depth."""
    rx = re.compile(r"(?m)^[ \t]*(?:pub(?:\([^)]*\))?\s+)?(?:const\s+)?fn\s+%s\b" % re.escape(name))
    cands = []
    for m in rx.finditer(src, lo, hi):
        # depth check
        depth = 0
        i = lo
        while i < m.start():
            j = skip_noncode(src, i)
            if j != i:
                i = j
                continue
            if src[i] == "{":
                depth += 1
            elif src[i] == "}":
                depth -= 1
            i += 1
        if depth == want_depth and fn_cfg_enabled(src, m.start()):
            cands.append(m)
    if len(cands) != 1:
        raise Undecided("lost anchor: fn %s found %d times" % (name, len(cands)))
    m = cands[0]
    ob = first_brace_at_depth0(src, m.start())
    if ob < 0:
        raise Undecided("lost anchor: fn %s has no body" % name)
    cb = match_close(src, ob, "{", "}")
    return m.start(), ob, cb


# ---------------------------------------------------------------- rewrite rules

class Log:
    def __init__(self):
        self.rules = []
        self.abstractions = []
        self.sources = []

    def rule(self, r):
        if r not in self.rules:
            self.rules.append(r)


def resolve_cfg(text, std, log):
    """Rcfg: resolve #[cfg(feature = "std")] and #[cfg(not(feature = "std"))] on statements / fields."""
    out = []
    i = 0
    rx = re.compile(r'#\[cfg\((not\()?feature = "std"\)?\)\]\s*')
    while True:
        m = rx.search(text, i)
        if not m:
            out.append(text[i:])
            break
        out.append(text[i:m.start()])
        negated = m.group(1) is not None
        keep = (std and not negated) or (not std and negated)
        j = m.end()
        # extent of the following statement / field / item
        k = j
        depth = 0
        n = len(text)
        end = None
        while k < n:
            kk = skip_noncode(text, k)
            if kk != k:
                k = kk
                continue
            c = text[k]
            if c in "([":
                depth += 1
            elif c in ")]":
                depth -= 1
            elif c == "{" and depth == 0:
                cb = match_close(text, k, "{", "}")
                k = cb + 1
                # `if .. {}` statement or block item ends here (allow trailing else)
                rest = text[k:].lstrip()
                if rest.startswith("else"):
                    continue
                end = k
                break
            elif c in ";," and depth == 0:
                end = k + 1
                break
            elif c == "}" and depth == 0:
                end = k
                break
            k += 1
        if end is None:
            end = n
        log.rule('Rcfg: #[cfg(feature="std")] resolved for feature set std=%s' % std)
        if keep:
            out.append(text[j:end])
        i = end
    return "".join(out)


def replace_macro_calls(text, macro, repl_fn):
    """Replace every `macro!( ... )` (code position) by repl_fn(n)."""
    out = []
    i = 0
    cnt = 0
    while True:
        m = find_code(text, re.escape(macro) + r"!\s*\(", i)
        if not m:
            out.append(text[i:])
            break
        ob = m.end() - 1
        cb = match_close(text, ob, "(", ")")
        cnt += 1
        out.append(text[i:m.start()])
        out.append(repl_fn(cnt))
        i = cb + 1
    return "".join(out), cnt


def strip_attrs(text):
    # attribute lines that Verus does not need
    return re.sub(r"(?m)^[ \t]*#\[(track_caller|inline(\([a-z]+\))?|cfg_attr\(.*\)|allow\(.*\)|must_use|doc\(hidden\))\][ \t]*\n", "", text)


def fix_vis(text):
    return re.sub(r"\bpub\((crate|super|in [^)]*)\)", "pub", text)


def anchor_regex(a):
    """Exact-text anchor, insensitive to the amount of whitespace (so re-indentation is not a lost anchor)."""
    parts = [re.escape(t) for t in a.split()]
    return re.compile(r"\s+".join(parts))


def is_insertion(a, b):
    """b is a with text inserted at one or two places (nothing of a removed)."""
    na = "".join(a.split())
    nb = "".join(b.split())
    # subsequence check on non-whitespace characters
    it = iter(nb)
    return all(c in it for c in na)


def apply_auto_rules(body, fnname, strips, std, log, panic_args=None):
    panic_args = panic_args or {}
    body = resolve_cfg(body, std, log)
    body, n = replace_macro_calls(body, "panic", lambda k: "__panic_%s_%d(%s)" % (fnname, k, panic_args.get(k, "")))
    if n:
        log.rule("R1: panic!(..) -> per-site diverging stub __panic_<fn>_<n>() (message text dropped)")
    body, n2 = replace_macro_calls(body, "format", lambda k: "__format()")
    if n2:
        log.rule("R2: format!(..) -> opaque __format() (message text dropped)")
    body, n3 = replace_macro_calls(body, "std::eprintln", lambda k: "__eprintln()")
    if n3:
        log.rule("R2: eprintln!(..) -> opaque __eprintln()")
    for p in strips:
        if p in body:
            body = re.sub(r"(?<![A-Za-z0-9_:])" + re.escape(p), "", body)
            log.rule("R5: path prefix `%s` stripped" % p)
    return body


# ---------------------------------------------------------------- template expansion

def parse_kv(s):
    """Parse `key=value` tokens where a value may be /regex with spaces/."""
    res = {}
    i = 0
    rx = re.compile(r"\s*(\w+)=(/(?:[^/\\]|\\.)*/|\S+)")
    while True:
        m = rx.match(s, i)
        if not m:
            m2 = re.match(r"\s*\S+", s[i:])
            if not m2:
                break
            i += m2.end()
            continue
        v = m.group(2)
        if v.startswith("/") and v.endswith("/") and len(v) >= 2:
            v = v[1:-1]
        res[m.group(1)] = v
        i = m.end()
    return res


class Generated:
    def __init__(self):
        self.text = ""
        self.header = {}
        self.fn_props = {}   # fn name -> props list
        self.canary_skip = set()
        self.log = Log()
        self.extracted = []  # (name, file, impl)


def expand(template_path, std=True):
    tl = open(template_path).read().split("\n")
    g = Generated()
    out = []
    strips = []
    cur_props = None
    i = 0
    n = len(tl)
    while i < n:
        l = tl[i]
        s = l.strip()
        if s.startswith("//@V "):
            g.header = dict(kv.split("=", 1) for kv in s[5:].split())
            cur_props = g.header.get("props", "").split(",")
        elif s.startswith("//@strip "):
            strips += s.split()[1:]
        elif s.startswith("//@props "):
            cur_props = s.split()[1].split(",")
            out.append("// props " + ",".join(cur_props))
        elif s.startswith("//@item "):
            noderive = s.endswith(" noderive")
            if noderive:
                s = s[:-len(" noderive")].rstrip()
            m = re.match(r"//@item (\S+) /(.*)/\s*(fieldspub)?\s*$", s)
            if not m:
                raise Undecided("bad directive: " + s)
            file, rx, fieldspub = m.group(1), m.group(2), m.group(3)
            src = read_repo(file)
            ms = [mm for mm in re.finditer(r"(?m)^[ \t]*" + rx, src)]
            if len(ms) != 1:
                raise Undecided("lost anchor: item /%s/ matched %d times in %s" % (rx, len(ms), file))
            st = ms[0].start()
            ob = first_brace_at_depth0(src, st)
            if ob < 0:
                end = src.find(";", st) + 1
            else:
                end = match_close(src, ob, "{", "}") + 1
                # tuple struct `struct X(..);`
            text = src[st:end]
            # keep #[derive(..)] attributes that sit directly above the item
            k = st
            derives = []
            while True:
                prev_end = src.rfind("\n", 0, k - 1) if k > 0 else -1
                line = src[prev_end + 1:k - 1] if k > 0 else ""
                if line.strip().startswith("#[derive("):
                    derives.insert(0, line.strip())
                    k = prev_end + 1
                elif line.strip().startswith("#[") or line.strip().startswith("///"):
                    k = prev_end + 1
                else:
                    break
                if k <= 0:
                    break
            if derives and not noderive:
                text = "\n".join(derives) + "\n" + text
            text = resolve_cfg(text, std, g.log)
            text = fix_vis(strip_attrs(text))
            text = re.sub(r"(?m)^(?=(enum|struct|trait|type|union)\b)", "pub ", text, count=1)   # Rvis: private items made pub
            for p in strips:
                text = re.sub(r"(?<![A-Za-z0-9_:])" + re.escape(p), "", text)
            if fieldspub:
                # make named fields public so that spec functions may read them
                text = re.sub(r"(?m)^(\s+)(?!pub\b|//|#)([a-z_][A-Za-z0-9_]*\s*:)", r"\1pub \2", text)
            g.log.rule("Rvis: visibility widened to pub, non-derive attributes dropped")
            g.log.sources.append("%s: item /%s/" % (file, rx))
            out.append("// ---- extracted verbatim from %s" % file)
            out.append(text)
        elif s.startswith("//@fn "):
            m = re.match(r"//@fn (\S+) (.*)$", s)
            file = m.group(1)
            kv = parse_kv(m.group(2))
            toplevel = " top" in (" " + m.group(2)) and "impl" not in kv
            name = kv["name"]
            spec_lines = []
            rewrites = []
            annots = []
            closures = []
            invariants = {}
            afterloops = {}
            loopstarts = {}
            panic_args = {}
            prepends = []
            appends = []
            value_drops = []
            sigrewrites = []
            annots_all = []
            rewrites_all = []
            i += 1
            while tl[i].strip() != "//@end":
                t = tl[i].strip()
                if t.startswith("//@rewriteall "):
                    mm = re.match(r"//@rewriteall <<<(.*)>>> => <<<(.*)>>>\s*$", t)
                    rewrites_all.append((mm.group(1), mm.group(2)))
                elif t.startswith("//@annotall "):
                    mm = re.match(r"//@annotall <<<(.*)>>> => <<<(.*)>>>\s*$", t)
                    annots_all.append((mm.group(1).replace("\\n", "\n"), mm.group(2).replace("\\n", "\n")))
                elif t.startswith("//@rewrite ") or t.startswith("//@annot "):
                    mm = re.match(r"//@(rewrite|annot) <<<(.*)>>> => <<<(.*)>>>\s*$", t)
                    if not mm:
                        raise Undecided("bad directive: " + t)
                    (rewrites if mm.group(1) == "rewrite" else annots).append(
                        (mm.group(2).replace("\\n", "\n"), mm.group(3).replace("\\n", "\n")))
                elif t.startswith("//@sigrewrite "):
                    mm = re.match(r"//@sigrewrite <<<(.*)>>> => <<<(.*)>>>\s*$", t)
                    sigrewrites.append((mm.group(1), mm.group(2)))
                elif t.startswith("//@panic "):
                    mm = re.match(r"//@panic (\d+) <<<(.*)>>>\s*$", t)
                    panic_args[int(mm.group(1))] = mm.group(2)
                elif t.startswith("//@prepend "):
                    mm = re.match(r"//@prepend <<<(.*)>>>\s*$", t)
                    prepends.append(mm.group(1))
                elif t.startswith("//@implicit-drop-value "):
                    mm = re.match(r"//@implicit-drop-value <<<(.*)>>>\s*$", t)
                    value_drops.append(mm.group(1))
                elif t.startswith("//@implicit-drop "):
                    mm = re.match(r"//@implicit-drop <<<(.*)>>>\s*$", t)
                    appends.append(mm.group(1))
                elif t.startswith("//@closure "):
                    mm = re.match(r"//@closure <<<(.*?)>>> => <<<(.*?)>>>(?: let <<<(.*)>>>)?\s*$", t)
                    closures.append((mm.group(1), mm.group(2), mm.group(3) or ""))
                elif t.startswith("//@afterloop "):
                    mm = re.match(r"//@afterloop (\d+) <<<(.*)>>>\s*$", t)
                    afterloops[int(mm.group(1))] = mm.group(2)
                elif t.startswith("//@loopstart "):
                    mm = re.match(r"//@loopstart (\d+) <<<(.*)>>>\s*$", t)
                    loopstarts[int(mm.group(1))] = mm.group(2)
                elif t.startswith("//@invariant "):
                    k = int(t.split()[1])
                    inv = []
                    i += 1
                    while tl[i].strip() != "//@endinvariant":
                        inv.append(tl[i])
                        i += 1
                    invariants[k] = inv
                else:
                    spec_lines.append(tl[i])
                i += 1
            src = read_repo(file)
            if toplevel:
                st, ob, cb = find_fn(src, 0, len(src), name, 0)
                where = "top-level"
            else:
                found = []
                for (bst, bob, bcb) in find_blocks(src, kv["impl"], "impl"):
                    try:
                        found.append(find_fn(src, bob + 1, bcb, name, 0))
                    except Undecided:
                        pass
                if len(found) != 1:
                    raise Undecided("lost anchor: fn %s found %d times in impl blocks /%s/ of %s" % (name, len(found), kv["impl"], file))
                st, ob, cb = found[0]
                where = "impl /%s/" % kv["impl"]
            sig = src[st:ob].strip()
            body = src[ob:cb + 1]
            sig = fix_vis(sig)
            for p in strips:
                sig = re.sub(r"(?<![A-Za-z0-9_:])" + re.escape(p), "", sig)
            for (a, b) in sigrewrites:
                hits = list(anchor_regex(a).finditer(sig))
                if len(hits) != 1:
                    raise Undecided("lost anchor: signature text <<<%s>>> matched %d times in fn %s" % (a, len(hits), name))
                sig = sig[:hits[0].start()] + b + sig[hits[0].end():]
                g.log.abstractions.append("fn %s signature: <<<%s>>> -> <<<%s>>> (opaque stand-in type)" % (name, a, b))
            emit_name = kv.get("rename", name)
            if "rename" in kv:
                sig = re.sub(r"\bfn\s+%s\b" % re.escape(name), "fn " + emit_name, sig, count=1)
                g.log.rule("R4: trait-impl method emitted as inherent/free fn with the same body (%s -> %s)" % (name, emit_name))
            if "ret" in kv:
                ms = list(re.finditer(r"\)\s*->\s*", sig))
                if not ms:
                    raise Undecided("fn %s: no return type to name" % name)
                last = ms[-1]
                rest = sig[last.end():]
                wm = re.search(r"\bwhere\b", rest)
                rtype = rest[:wm.start()].strip() if wm else rest.strip()
                wclause = rest[wm.start():] if wm else ""
                sig = sig[:last.start()] + ") -> (%s: %s)" % (kv["ret"], rtype) + (" " + wclause if wclause else "")
            if "addsig" in kv:
                pass
            body = strip_attrs(body)
            body = apply_auto_rules(body, emit_name, strips, std, g.log, panic_args)
            for (a, b) in rewrites:
                hits = list(anchor_regex(a).finditer(body))
                if len(hits) != 1:
                    raise Undecided("lost anchor: abstraction point <<<%s>>> matched %d times in fn %s" % (a, len(hits), name))
                body = body[:hits[0].start()] + b + body[hits[0].end():]
                g.log.abstractions.append("fn %s: <<<%s>>> -> <<<%s>>> (assumed contract of the stub)" % (name, a, b))
            for (a, b) in rewrites_all:
                body, cnt = anchor_regex(a).subn(lambda _m: b, body)
                if cnt == 0:
                    raise Undecided("lost anchor: abstraction point <<<%s>>> not found in fn %s" % (a, name))
                g.log.abstractions.append("fn %s: every <<<%s>>> -> <<<%s>>> (%d sites; assumed contract of the stub)" % (name, a, b, cnt))
            for (a, b) in annots:
                hits = list(anchor_regex(a).finditer(body))
                if len(hits) != 1:
                    raise Undecided("lost anchor: annotation site <<<%s>>> matched %d times in fn %s" % (a, len(hits), name))
                if not is_insertion(a, b):
                    raise Undecided("annotation for <<<%s>>> does not preserve the original text" % a)
                body = body[:hits[0].start()] + b + body[hits[0].end():]
                g.log.rule("Rannot: insert-only annotation (ghost iterator name / ghost statement); code text unchanged")
            for (a, b) in annots_all:
                if not is_insertion(a, b):
                    raise Undecided("annotation for <<<%s>>> does not preserve the original text" % a)
                body, cnt = anchor_regex(a).subn(lambda _m: b, body)
                if cnt == 0:
                    raise Undecided("lost anchor: annotation site <<<%s>>> not found in fn %s" % (a, name))
                g.log.rule("Rannot: insert-only annotation (ghost iterator name / ghost statement); code text unchanged")
            if value_drops:
                # fn returns a value: { BODY } -> { let __r = { BODY }; <drop>; __r }
                body = "{ let __r = " + body + ";\n" + "\n".join(value_drops) + "\n__r }"
                g.log.rule("Rdrop: the implicit drop of a by-value `self: Unimock` at the end of the fn is made explicit")
            if re.search(r"\(\s*mut self\b", sig):
                sig = re.sub(r"\(\s*mut self\b", "(self", sig, count=1)
                body = re.sub(r"(?<![A-Za-z0-9_])self(?![A-Za-z0-9_])", "__self", body)
                prepends = ["let mut __self = self;"] + prepends
                appends = [re.sub(r"(?<![A-Za-z0-9_])self(?![A-Za-z0-9_])", "__self", a) for a in appends]
                body = body.replace("__self::", "Self::").replace("Self::drop_unimock(&mut Self)", "Self::drop_unimock(&mut __self)")
                g.log.rule("Rmutself: `mut self` parameter -> `self` + `let mut __self = self;`, body refers to __self (Verus has no `mut self`)")
            mp = re.findall(r"(?<![A-Za-z0-9_])mut\s+([a-z_][A-Za-z0-9_]*)\s*:", sig.split("->")[0])
            for pname in mp:
                sig = re.sub(r"(?<![A-Za-z0-9_])mut\s+%s\s*:" % pname, "%s:" % pname, sig, count=1)
                prepends = ["let mut %s = %s;" % (pname, pname)] + prepends
                g.log.rule("Rmutparam: `mut x: T` parameter -> `x: T` + `let mut x = x;` (Verus has no `mut` parameters)")
            if prepends:
                body = "{\n" + "\n".join(prepends) + "\n" + body[1:]
                g.log.rule("Rghost: ghost declaration prepended to the body")
            if appends:
                e = body.rstrip()
                assert e.endswith("}")
                body = e[:-1] + "\n".join(appends) + "\n}"
                g.log.rule("Rdrop: the implicit drop of a by-value `self: Unimock` at the end of the fn is made explicit")
            expanded = []
            for (a, b, clet) in closures:
                if a.startswith("*"):          # `*|x|` : annotate EVERY occurrence (identical closures)
                    a = a[1:]
                    if body.count(a) == 0:
                        raise Undecided("lost anchor: closure <<<%s>>> not found in fn %s" % (a, name))
                    expanded += [(a, b, clet, True)] * body.count(a)
                else:
                    expanded.append((a, b, clet, False))
            search_from = 0
            for (a, b, clet, multi) in expanded:
                if not multi and body.count(a) != 1:
                    raise Undecided("lost anchor: closure <<<%s>>> matched %d times in fn %s" % (a, body.count(a), name))
                p = body.index(a, search_from) if multi else body.index(a)
                q = p + len(a)
                # closure body extends to the unbalanced ')' or a top-level ',' / ';'
                k = q
                depth = 0
                while k < len(body):
                    kk = skip_noncode(body, k)
                    if kk != k:
                        k = kk
                        continue
                    c = body[k]
                    if c in "([{":
                        depth += 1
                    elif c in ")]}":
                        if depth == 0:
                            break
                        depth -= 1
                    elif c in ",;" and depth == 0:
                        break
                    k += 1
                cbody = body[q:k].strip()
                replacement = b + " { " + clet + " " + cbody + " }"
                body = body[:p] + replacement + body[k:]
                search_from = p + len(replacement) if multi else 0
                if clet:
                    g.log.rule("Rclosure: a closure parameter pattern becomes a variable + `let <pattern> = <variable>;` (Verus closures take variables only)")
                g.log.rule("Rclosure: closure given typed parameters and an `ensures`; its body text is unchanged")
            if loopstarts:
                body = splice_afterloops(body, loopstarts, name, at_start=True)
                g.log.rule("Rannot: insert-only annotation (ghost iterator name / ghost statement); code text unchanged")
            if afterloops:
                body = splice_afterloops(body, afterloops, name)
                g.log.rule("Rannot: insert-only annotation (ghost iterator name / ghost statement); code text unchanged")
            if invariants:
                body = splice_invariants(body, invariants, name)
            check_loops_annotated(body, name)
            spec = "\n".join(spec_lines)
            out.append("// ---- extracted verbatim from %s (%s) fn %s" % (file, where, name))
            out.append(sig)
            if spec.strip():
                out.append(spec)
            out.append(body)
            props = kv["props"].split(",") if "props" in kv else cur_props
            g.fn_props[emit_name] = props
            if kv.get("canary") == "skip":
                g.canary_skip.add(emit_name)
            g.extracted.append((emit_name, file, where))
            g.log.sources.append("%s: %s fn %s" % (file, where, name))
        else:
            out.append(l)
            mm = re.match(r"\s*(?:pub\s+)?(?:broadcast\s+)?(?:proof\s+)?fn\s+(\w+)", l)
            if mm and "spec fn" not in l and cur_props is not None:
                if mm.group(1) not in g.fn_props:
                    g.fn_props[mm.group(1)] = cur_props
            if "//@canary-skip" in l and mm:
                g.canary_skip.add(mm.group(1))
        i += 1
    g.text = "\n".join(out) + "\n"
    return g


def check_loops_annotated(body, name):
    """Every loop of an extracted body must carry an invariant from the template.  A loop the template does not know (added or
    moved by an edit of /repo) would otherwise be verified with an empty invariant and fail for want of annotation, not for a
    semantic reason: that is undecided (exit 2), never an alarm."""
    i = 1
    k = 0
    while True:
        m = find_code(body, r"\b(while|for|loop)\b", i)
        if not m:
            return
        k += 1
        ob = first_brace_at_depth0(body, m.end())
        if not re.search(r"\binvariant\b", body[m.end():ob]):
            raise Undecided("fn %s: loop #%d carries no invariant from the template (loop added or moved); undecided, not a violation" % (name, k))
        i = m.end()


def splice_afterloops(body, afterloops, name, at_start=False):
    """Insert a ghost statement right after the closing brace of the n-th loop (1-based, textual order).  Keyed by the loop's
    ordinal, not by the text of the statement that follows it, so that harmless edits of that statement do not lose the anchor."""
    i = 1
    k = 0
    ends = {}
    while True:
        m = find_code(body, r"\b(while|for|loop)\b", i)
        if not m:
            break
        k += 1
        ob = first_brace_at_depth0(body, m.end())
        ends[k] = ob if at_start else match_close(body, ob, "{", "}")
        i = m.end()
    missing = [n for n in afterloops if n not in ends]
    if missing:
        raise Undecided("lost anchor: fn %s has no loop #%s" % (name, missing))
    res = body
    for n in sorted(afterloops, key=lambda n: -ends[n]):
        res = res[:ends[n] + 1] + "\n" + afterloops[n] + "\n" + res[ends[n] + 1:]
    return res


def splice_invariants(body, invariants, name):
    """Insert `invariant ...` clauses before the `{` of the n-th loop (1-based, textual order)."""
    res = body
    offset = 0
    k = 0
    i = 1  # skip the fn's own '{'
    positions = []
    while True:
        m = find_code(res, r"\b(while|for|loop)\b", i)
        if not m:
            break
        k += 1
        ob = first_brace_at_depth0(res, m.end())
        positions.append((k, ob))
        i = m.end()
    for (k, ob) in sorted(positions, key=lambda x: -x[1]):
        if k in invariants:
            res = res[:ob] + "\n" + "\n".join(invariants[k]) + "\n" + res[ob:]
    missing = [k for k in invariants if k > len(positions)]
    if missing:
        raise Undecided("lost anchor: fn %s has no loop #%s" % (name, missing))
    return res


# ---------------------------------------------------------------- generated-file analysis

def find_body_open(text, start):
    """Index of the `{` that opens the body of the fn whose signature starts at `start` (Verus syntax: spec clauses may
    contain braces).  Rule: a `{` at ()/[] depth 0 that comes before any requires/ensures/decreases/recommends keyword, or
    otherwise the first `{` at depth 0 that is the first non-blank character of its line (template convention)."""
    i = start
    depth = 0
    n = len(text)
    in_spec = False
    brace = 0
    while i < n:
        j = skip_noncode(text, i)
        if j != i:
            i = j
            continue
        c = text[i]
        if c in "([":
            depth += 1
        elif c in ")]":
            depth -= 1
        elif depth == 0 and brace == 0 and re.match(r"(requires|ensures|decreases|recommends)\b", text[i:i + 12]) and not (text[i - 1].isalnum() or text[i - 1] == "_"):
            in_spec = True
        elif c == "{" and depth == 0:
            if not in_spec:
                return i
            ls = text.rfind("\n", 0, i) + 1
            if brace == 0 and text[ls:i].strip() == "":
                return i
            if brace == 0:
                # a block on a spec line: expression inside the clause, or a one-line body?  Look at what follows it.
                cb = match_close(text, i, "{", "}")
                rest = text[cb + 1:].lstrip()
                if not re.match(r"(,|&&|\|\||==>|<==|==|!=|[)\].?+\-*/<>]|else\b|by\b)", rest):
                    return i
            brace += 1
        elif c == "}" and depth == 0 and in_spec:
            brace -= 1
        elif c == ";" and depth == 0 and brace == 0:
            return -1
        i += 1
    return -1


def scan_functions(text):
    """Return list of dicts(name, kind, start_line, end_line, sig_start, body_open) for every fn with a body."""
    res = []
    i = 0
    rx = r"(?:pub\s+)?(?:open\s+|closed\s+|broadcast\s+)*(?:(spec|proof|exec)\s+)?(?:const\s+)?fn\s+(\w+)"
    while True:
        m = find_code(text, r"(?<![A-Za-z0-9_])" + rx, i)
        if not m:
            break
        # find the body
        ob = find_body_open(text, m.end())
        if ob < 0:
            i = m.end()
            continue
        cb = match_close(text, ob, "{", "}")
        pre = text[max(0, text.rfind("\n\n", 0, m.start())):m.start()]
        external = "external_body" in text[max(0, m.start() - 200):m.start()].split("}")[-1]
        kind = m.group(1) or "exec"
        res.append({
            "name": m.group(2), "kind": kind, "external": external,
            "start": m.start(), "open": ob, "close": cb,
            "start_line": text.count("\n", 0, m.start()) + 1,
            "end_line": text.count("\n", 0, cb) + 1,
        })
        # nested fns do not occur; continue after signature (so closures/inner items are skipped)
        i = cb + 1 if kind != "impl" else m.end()
    return res


def make_canary(text, fns, skip):
    """Vacuity canary: every non-spec, non-external fn gets a COPY `<name>__canary` with `ensures false`
    placed right after it (callees keep their real contracts); each copy must FAIL to verify."""
    edits = []
    for f in fns:
        if f["kind"] == "spec" or f["external"] or f["name"] in skip or f["name"] == "main":
            continue
        whole = text[f["start"]:f["close"] + 1]
        sig_len = f["open"] - f["start"]
        sig = whole[:sig_len]
        body = whole[sig_len:]
        sig = re.sub(r"\bfn\s+%s\b" % re.escape(f["name"]), "fn %s__canary" % f["name"], sig, count=1)
        m = re.search(r"\bensures\b", sig)
        if m:
            sig = sig[:m.end()] + " false," + sig[m.end():]
        else:
            d = re.search(r"\bdecreases\b", sig)
            if d:
                sig = sig[:d.start()] + " ensures false, " + sig[d.start():]
            else:
                sig = sig + " ensures false, "
        edits.append((f["close"] + 1, "\n" + sig + body + "\n"))
    res = text
    for pos, ins in sorted(edits, key=lambda x: -x[0]):
        res = res[:pos] + ins + res[pos:]
    return res
