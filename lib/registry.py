"""Which properties are claimed, what each check explains about itself, and the baseline of obligations."""
import json
import os

from common import VERIF

BASELINE = os.path.join(VERIF, "baseline", "obligations.json")

TRUSTED_BASE = [
    "Verus 0.2026.09.13 + Z3 (Tier V), Kani 0.68.0 + CBMC 6.11.0 + cadical (Tier K), rustc of each tool's pinned toolchain",
    "lib/extract.py: mechanical extraction of function text from /repo (rules R1,R2,R4,R5,Rcfg,Rvis,Rclosure logged per run)",
    "std contracts assumed, not proved: <[T]>::binary_search_by (documented contract), Vec push/len/index, Option, Arc, Mutex, AtomicUsize, BTreeMap<TypeId,_>, TypeId::of injectivity",
    "#![forbid(unsafe_code)] in both crates: memory safety is rustc's obligation",
]

ASSUMPTIONS = [
    "machine arithmetic: overflow preconditions are explicit `requires` (e.g. minimum + times <= usize::MAX); Kani checks overflow on every path it explores",
    "Kani treats atomics as sequential operations (no threads): every K obligation is about one thread",
    "alloc::fmt::format is stubbed in K harnesses that reach it (message text unchecked)",
    "K harnesses mem::forget their objects where noted, so drop glue is outside the obligation",
]

PROPS = {}


def claim(pid, explanation, trusted=None, assumptions=None):
    PROPS[pid] = {"explanation": explanation, "trusted": trusted or [], "assumptions": assumptions or []}


def expected_obligations(prop, tier):
    if not os.path.exists(BASELINE):
        return []
    d = json.load(open(BASELINE))
    e = d.get(prop, {})
    return e.get(tier, [])


claim(
    "C03",
    "Contracts: CallCounter::verify pushes exactly one FailedVerification iff the count violates (minimum, exactness) "
    "for ALL (actual, minimum, exactness) [K-full]; CallCountExpectation arithmetic and the builder's quantify/push/then "
    "contracts [V, unbounded]; lemma expectation_of_chain derives the three expectation shapes of the statement; "
    "FnMocker::verify adds MockNeverCalled iff the per-method sum is 0 [K-bnd, pattern count bounded]; teardown returns "
    "Err(unmet) iff unmet is non-empty, teardown_panic panics iff Err, teardown_report FAILURE iff Err [V].",
    trusted=["BTreeMap iteration in teardown visits every FnMocker exactly once (abstraction point)"],
    assumptions=["failure-message text is not checked (format! is opaque)"],
)
claim(
    "C02",
    "Contracts: find_responder_by_call_index returns the responder with the greatest start index <= call index, for "
    "responder lists of every length [V]; push_responder/quantify/add_to_minimum maintain the running index [V]; lemma "
    "chain_semantics: k-th match -> first segment whose cumulative count reaches k, last segment afterwards [V]; type-state "
    "wrappers of build.rs refine the abstract op sequence [K-full]; next_responder = lookup at pre-increment counter "
    "[K-bnd, also a cross-check of the trusted binary_search_by contract]; single-use values yield Some once then None [K-full].",
    trusted=["documented contract of <[T]>::binary_search_by (Tier V); for equal start indexes (n_times(0).then()) the contract allows any match - covered only by the bounded K twin against the compiled std"],
)

claim(
    "C04",
    "Contracts: MockAssembler::new_call_pattern assigns [cur, cur+n) to an ordered Exact(n) pattern and advances cur, leaves "
    "unordered patterns with the empty range and cur unchanged [K-full]; lemma ranges_partition: folding that contract over any "
    "clause list yields consecutive, pairwise disjoint ranges in clause order covering [0, sum) [V]; "
    "find_call_pattern_for_call_order returns the first pattern whose range contains the index [K-bnd]; match_call_pattern's "
    "InOrder arm bumps the global index by exactly one and checks exactly the owner with diagnostics on; its InAnyOrder arm leaves "
    "the global index alone [K-bnd]; lemma ordered_history over those contracts [V].",
)
