"""Which properties are claimed, what each check explains about itself, and the baseline of obligations."""
import json
import os

from common import VERIF

BASELINE = os.path.join(VERIF, "baseline", "obligations.json")

TRUSTED_BASE = [
    "Verus 0.2026.09.13 + Z3 (Tier V), Kani 0.68.0 + CBMC 6.11.0 + cadical (Tier K), rustc of each tool's pinned toolchain",
    "lib/extract.py: mechanical extraction of function text from /repo (rules R1,R2,R4,R5,Rcfg,Rvis,Rclosure logged per run)",
    "std contracts assumed, not proved: <[T]>::binary_search_by (documented contract), Vec push/len/index, Option, Arc, Mutex, AtomicUsize, BTreeMap<TypeId,_>, TypeId::of injectivity",
    "#![forbid(unsafe_code)] in both crates: memory safety is rustc's obligation",
]

ASSUMPTIONS = [
    "machine arithmetic: overflow preconditions are explicit `requires` (e.g. minimum + times <= usize::MAX); Kani checks overflow on every path it explores",
    "Kani treats atomics as sequential operations (no threads): every K obligation is about one thread",
    "alloc::fmt::format is stubbed in K harnesses that reach it (message text unchecked)",
    "K harnesses mem::forget their objects where noted, so drop glue is outside the obligation",
]

PROPS = {}


def claim(pid, explanation, trusted=None, assumptions=None):
    PROPS[pid] = {"explanation": explanation, "trusted": trusted or [], "assumptions": assumptions or []}


def expected_obligations(prop, tier):
    if not os.path.exists(BASELINE):
        return []
    d = json.load(open(BASELINE))
    e = d.get(prop, {})
    return e.get(tier, [])


claim(
    "C03",
    "Contracts: CallCounter::verify pushes exactly one FailedVerification iff the count violates (minimum, exactness) "
    "for ALL (actual, minimum, exactness) [K-full]; CallCountExpectation arithmetic and the builder's quantify/push/then "
    "contracts [V, unbounded]; lemma expectation_of_chain derives the three expectation shapes of the statement; "
    "FnMocker::verify adds MockNeverCalled iff the per-method sum is 0 [K-bnd, pattern count bounded]; teardown returns "
    "Err(unmet) iff unmet is non-empty, teardown_panic panics iff Err, teardown_report FAILURE iff Err [V].",
    trusted=["BTreeMap iteration in teardown visits every FnMocker exactly once (abstraction point)"],
    assumptions=["failure-message text is not checked (format! is opaque)"],
)
claim(
    "C02",
    "Contracts: find_responder_by_call_index returns the responder with the greatest start index <= call index, for "
    "responder lists of every length [V]; push_responder/quantify/add_to_minimum maintain the running index [V]; lemma "
    "chain_semantics: k-th match -> first segment whose cumulative count reaches k, last segment afterwards [V]; type-state "
    "wrappers of build.rs refine the abstract op sequence [K-full]; next_responder = lookup at pre-increment counter "
    "[K-bnd, also a cross-check of the trusted binary_search_by contract]; single-use values yield Some once then None [K-full].",
    trusted=["documented contract of <[T]>::binary_search_by (Tier V); for equal start indexes (n_times(0).then()) the contract allows any match - covered only by the bounded K twin against the compiled std"],
)

claim(
    "C04",
    "Contracts: MockAssembler::new_call_pattern assigns [cur, cur+n) to an ordered Exact(n) pattern and advances cur, leaves "
    "unordered patterns with the empty range and cur unchanged [K-full]; lemma ranges_partition: folding that contract over any "
    "clause list yields consecutive, pairwise disjoint ranges in clause order covering [0, sum) [V]; "
    "find_call_pattern_for_call_order returns the first pattern whose range contains the index [K-bnd]; match_call_pattern's "
    "InOrder arm bumps the global index by exactly one and checks exactly the owner with diagnostics on; its InAnyOrder arm leaves "
    "the global index alone [K-bnd]; lemma ordered_history over those contracts [V].",
)

claim(
    "C09",
    "Contracts on the verbatim teardown / teardown_panic / teardown_report / Drop::drop / Unimock::verify / no_verify_in_drop / "
    "Clone::clone [V]: every mock-owned panic site is a diverging stub whose `requires` is the condition under which the property "
    "PERMITS that panic (live clone: original & not unwinding & strong_count > 1; wrong thread; verify()/no_verify_in_drop() on a "
    "clone; unmet verdict), and each function's normal-return postcondition states that none of those conditions held (must-panic). "
    "teardown sets torn_down, so the implicit drop after verify()/report() is a no-op (the implicit drop of by-value self is made "
    "explicit in the extracted verify()). Lemmas over the permitted-panic predicates: a clone never panics nor reports; the original "
    "judges only with no clone alive on its creator thread; report() = FAILURE iff verify() would have reported.",
    trusted=["Arc::strong_count == number of live instances (std); real thread identity; helper clones created by delegation (OnceCell) and make_ref values are outside the contract"],
    assumptions=["std::thread::panicking(), thread::current().id(), Arc::strong_count, SharedState.panic_reasons are uninterpreted environment functions (abstraction points)"],
)
claim(
    "C11",
    "Contract on the verbatim teardown [V]: both lifecycle panic sites and the verdict panic site carry `!thread_panicking()` in their "
    "permitted-panic `requires`; Verus checks the stub precondition at the real call site, so moving the panicking() guard below the "
    "clone or thread check fails obligation V:lifecycle::teardown.  Lemma no_double_panic: while unwinding, no mock-owned panic site "
    "is permitted for originals and clones, any expectations, any strong count, any thread.  Helper release precedes the guard "
    "(postcondition: delegator cell emptied on every path).",
    trusted=["process-level behaviour (exit 101 vs SIGABRT), Drop impls of user values, lock poisoning after a caught user panic are outside the contract"],
)
claim(
    "C08",
    "Contracts [V]: teardown forwards the recorded reasons (all of them) instead of judging counts whenever a judging original finds "
    "the list non-empty; induce_panic reaches its panic site only with the ghost flag `recorded` set by the statement that pushes the "
    "error to the shared list (record-before-panic, ghost state); handle_error returns only on Ok and forwards Err to induce_panic.  "
    "clone_panic_reasons returns a copy and leaves the stored list unchanged [K-bnd].",
    trusted=["MutexIsh::locked + Vec::push abstracted as `record` (abstraction point); every error kind's route through generated code, other threads and catch_unwind are outside the contract"],
)

claim(
    "C01",
    "Contracts: DynCtx::match_call_pattern (InAnyOrder arm) returns the LEAST index whose matcher does not reject - Some((i, &patterns[i])) "
    "on accept, the mapped error on a matcher error, None when all reject - for pattern lists of every length [V: verbatim scan, std "
    "iterator contract assumed]; with every counter value and the global ordered index symbolic it modifies no counter and not the "
    "global index [K-bnd in the number of patterns]; since the "
    "counters are symbolic and absent from the postcondition, 'no matter how often matched before' follows.  eval_dyn bumps exactly the "
    "selected pattern's counter [K-bnd, thorough].  CallCounter::fetch_add returns old, stores old+1 [K-full].  MockAssembler::push "
    "appends in clause order and leaves other methods alone [V, all map states; K-full for the vacant path], finish hands the lists over unchanged [V, K-full], Each::call/deconstruct keep call order [K-bnd].  Lemmas: first_match_is_statement, "
    "history_independence [V].  private::eval (the function generated code calls) returns exactly eval::eval's decision for the call "
    "and sends errors through handle_error only [V].",
    trusted=["BTreeMap<TypeId,_>::get returns only the entry of that key (std; unreachable for Kani: TypeId ordering)", "harnesses build the no_std+spin-lock feature set; the functions under contract contain no cfg"],
)

claim(
    "C14",
    "Contracts: each tuple Clause impl (arity 2..16) deconstructs its elements in index order, each exactly once, stopping at the "
    "first Err, which is returned [K-full x 15]; MockAssembler::push rejects a second clause of the other mode for the same method in "
    "either order and appends nothing, appends after the existing patterns otherwise, registers [p] for a new method, rejects a "
    "builder carrying a responder error, never touches other methods [V: verbatim push over a BTreeMap entry stand-in with assumed "
    "std contracts; K-full for the vacant and responder-error paths]; Each::deconstruct "
    "rejects a stub without patterns [K-full]; lemma nesting_is_flattening: any nesting of tuples is the left-to-right list of its "
    "terminal clauses [V].",
    trusted=["'at any distance' rests on the BTreeMap keyed by TypeId (std)", "the compile-time rejections (type-state) are rustc's obligation, no runtime contract exists"],
)

claim(
    "C12",
    "Contracts [K-full per instantiation, real output/owning.rs and composites]: into_return_once(v) yields Some(v) then None forever; "
    "into_return(v) yields Some(v) on every request; the builder paths once() / unquantified returns() store the single-use form, "
    "n_times / at_least_times / each_call().returns() the repeatable form; composites (Option, Result, tuple, Vec, Poll) are None "
    "after delivery exactly when they contain a consumed owned leaf; a drop-counting leaf shows delivered <= 1.",
    trusted=["racing threads are outside (Kani has no threads; std Mutex trusted)", "the compile-time half (Clone demanded by the type state) is rustc's obligation"],
)

claim(
    "C17",
    "Contracts [K-full per container x leaf kind, K-bnd for Vec]: for symbolic v, output(into_return(v)) and output(into_return_once(v)) "
    "are structurally equal to v - same variant (Ok/Err, Some/None, Ready/Pending), same element order and count, same leaf values, "
    "tuple slots not transposed; borrowed leaves are produced on every call and are stable; owned leaves are single-use exactly on the "
    "single-use path.",
    trusted=["generalisation from u8/i8 leaves to all T is parametricity of the generic impls", "the macro's syntactic choice of output kind (unimock_macros/src/unimock/output.rs) is outside"],
)

claim(
    "C06",
    "K-inst: the code under contract is the expansion of the real matching! proc macro for a catalogue of invocations (literals, "
    "ranges, wildcards, bindings, @, or-patterns, tuple/struct/enum/Option patterns, slice patterns with rest, string literals against "
    "&str/String, eq!/ne!, top-level alternatives, guards over bindings incl. `||`, 1..3 arguments, matching!()).  For each instance a "
    "harness over the WHOLE argument domain asserts verdict(diagnostics off) == verdict(diagnostics on) == the Rust match written next to "
    "it; the matcher runs through the real DynInputMatcher::from_matching_fn and CallPattern::match_inputs.",
    trusted=["the catalogue samples programs; the compiler from pattern syntax to closure (proc-macro code over syn trees) has no contract within reach of Verus or Kani", "alloc::fmt::format stubbed (Debug text of mismatches unchecked)"],
)
claim(
    "C19",
    "K-inst on the catalogue's guard-free single-alternative instances: with diagnostics enabled, the set of argument positions recorded "
    "in the MismatchReporter equals { i | argument i does not match sub-pattern i } for every argument tuple, each once, with kind "
    "Pattern/Eq/Ne as written; the runtime collection functions (MismatchReporter::{pat_fail, eq_fail, ne_fail}, "
    "MismatchesBuilder::{collect_from_reporter, build}) record / collect each report with its argument position, kind and its two renderings "
    "in their own fields (actual stays actual), losing, duplicating, merging and reordering nothing [V, all inputs; K-bnd twins execute the std "
    "conversions the V unit assumes].  All message TEXT (Trait::method(args), Debug renderings, file:line, Display of MockError) is string "
    "formatting and is not covered.",
    trusted=["catalogue of programs", "message text is outside (str reasoning / core::fmt)"],
)

claim(
    "C07",
    "Contracts: DynCtx::eval_dyn for a method no clause mentions resolves default body > partial-by-default > fallback mode "
    "(strict: Err(NoMockImplementation), partial: Unmock) for all flag combinations [K-full, loop-free]; for a mentioned unordered "
    "method whose patterns all reject: strict -> Err(NoMatchingCallPatterns), partial -> Unmock, whatever the method's default-impl / "
    "partial flags, and no counter changes; on a match exactly the selected pattern's counter is bumped [K-bnd].  eval_dyn's result type "
    "has no value-carrying variant other than a Responder taken from the pattern list, so it cannot fabricate a return value.",
    trusted=["eval::eval's mapping of the decision to Eval::Continue(.., inputs) is not covered (whole-eval harnesses exhaust CBMC)", "the generated match arms that turn a continuation into a call of the real function / default body / report() are macro output (not covered)", "BTreeMap::get isolation between methods (std)"],
)

claim(
    "C18",
    "Contracts and lemmas: Clone for Unimock yields an instance holding the pointer-equal Arc'd shared state, and independently built "
    "mocks hold different Arcs [K-full]; new_call_pattern moves the ordered slot cursor only for ordered patterns, push on a new "
    "method registers exactly that pattern, finish hands the lists over unchanged [K-full]; the first-match scan depends only on the "
    "called method's own list [K-bnd, shared with C01]; lemma commuting_clauses over those contracts: swapping two adjacent clauses "
    "of different methods, not both ordered, changes no method's pattern list and no ordered range [V]; every tuple Clause impl (arity 2..16) "
    "hands its members to the assembler in index order, so flat, nested and padded layouts of the same clauses assemble identically [K-full]; "
    "teardown's verdict does not depend on handles the instance itself holds (delegation helper, value chain released before the count is judged) [V].",
    trusted=["map semantics of BTreeMap keyed by TypeId (std); distinct generic instantiations have distinct TypeIds (language)", "eval reads a Unimock only through shared_state (reviewed; not an obligation)", "the std BTreeMap entry API is a stand-in with assumed contracts in Tier V (CBMC cannot reach the occupied-entry path)"],
)
