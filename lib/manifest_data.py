"""Per-property text for MANIFEST.json."""
NOTES = ("Technique family: contract-based deductive verification of the real code. Exit codes: 0 all obligations discharged; "
         "1 + VIOLATION line: an obligation that holds on the unchanged tree fails; 2 undecided (tool limit, lost anchor, "
         "compile error in the tree under check) - never an alarm. K-bnd harnesses are bounded stand-ins and are reported "
         "separately in evidence.coverage.bounded, never counted as discharged proof obligations. Genuine defects found by these checks "
         "and repaired in /repo (unguarded 'fix:' commits 3e00ef7, c081832, c337c7e, all C06) are recorded as 'fixed:' entries in "
         "/verif/known_findings.txt (they suppress nothing); there is no open known finding.")

NOT_BUILT = "not built yet in this session (planned in DESIGN.md §4); no check is registered, nothing is claimed"

NOT_APPLICABLE = {
    "C01": NOT_BUILT, "C02": NOT_BUILT, "C04": NOT_BUILT, "C06": NOT_BUILT, "C07": NOT_BUILT, "C08": NOT_BUILT,
    "C09": NOT_BUILT, "C11": NOT_BUILT, "C12": NOT_BUILT, "C14": NOT_BUILT, "C17": NOT_BUILT, "C18": NOT_BUILT, "C19": NOT_BUILT,
    "C05": "needs the body of macro-generated trait impls run against a mock: whole-mock harnesses do not terminate in CBMC (>25 min for the smallest case), the modular route (private::eval stubbed by its contract) did not finish in 10 min, and Verus cannot ingest the expansions (GAT Inputs<'i>, dyn Fn answer closures, polonius!, async). No contract within reach of the installed verifiers expresses it.",
    "C10": "a statement over thread interleavings: Kani has no threads; Verus would need the counters rewritten onto its permission-typed atomics, which is a model, not the code. The sequential contract of fetch_add is satisfied equally by a racy load-then-store.",
    "C13": "ValueChain mutates through &self via once_cell::sync::OnceCell: Verus cannot specify interior mutability of an external cell without rewriting it onto PCell/tokens, and Kani cannot compile once_cell's std backend here (std::thread::current() -> ICE) nor its critical-section backend (extern fns).",
    "C15": "same obstacle as C05 (generated delegation arms, helper instance in a OnceCell); out of reach of function contracts with the installed tools.",
    "C16": "same obstacle as C05 (generated unmock arms); out of reach of function contracts with the installed tools.",
    "C20": "differential behaviour of upstream provided methods over scripted mocks = whole-mock executions through foreign default bodies; out of reach for the same reasons as C05.",
}

CHECKS = {
    "C18": {
        "level_text": "Proof of the per-function contracts the property rests on (clone shares the Arc, new mocks do not; slot cursor frame; finish is the identity) and of a permutation lemma over those contracts. Partial, with a large trusted base: map semantics, TypeId injectivity, and the append-to-existing-method path are not discharged.",
        "design_ref": "DESIGN.md §4 C18",
        "level_note": "Trusted: BTreeMap keyed by TypeId, TypeId::of injectivity, Kani/CBMC, Verus/Z3.",
        "technique": "function contracts: Kani contract harnesses (clone / assembler) + Verus permutation lemma over the contracts",
    },
    "C07": {
        "level_text": "Proof over all flag combinations for unmentioned methods (loop-free, complete); the mentioned-but-unmatched case is bounded in the number of patterns (reported as bounded). Partial: only the runtime decision (eval_dyn); the generated arms that act on the decision are not covered.",
        "design_ref": "DESIGN.md §4 C07",
        "level_note": "Trusted: Kani/CBMC; no_std+spin-lock feature set for harnesses needing a SharedState; the generated code half is not applicable.",
        "technique": "function contracts: Kani contract harnesses on eval_dyn (full-domain for the unmentioned table, bounded for the scan)",
    },
    "C06": {
        "level_text": "Proof per catalogue instance over its whole argument domain (diagnostics off and on against an ordinary Rust match); the set of programs is a catalogue, so the claim is 'proof per instance, programs sampled'.",
        "design_ref": "DESIGN.md §4 C06",
        "level_note": "Trusted: Kani/CBMC, rustc's own match semantics as the oracle, the catalogue; the macro itself (syn -> tokens) is not under contract.",
        "technique": "contract harnesses on macro expansions: Kani full-domain equivalence of the generated closure with a Rust match, per catalogue instance",
    },
    "C19": {
        "level_text": "Proof per catalogue instance over its whole argument domain of the mismatch POSITIONS and kinds (generated diagnostics arm), plus Verus proofs for all inputs that the runtime collection functions record and collect every report with its position and kind. Partial by design: message text is not covered.",
        "design_ref": "DESIGN.md §4 C19",
        "level_note": "Trusted: as C06. Everything textual in the property (call rendering, pattern source text, file:line) is not applicable to this technique.",
        "technique": "contract harnesses on macro expansions (Kani, per catalogue instance) + Verus requires/ensures on the extracted mismatch-collection functions",
    },
    "C17": {
        "level_text": "Proof per instantiation over all leaf values and variants (Option, Result, Poll, tuples of arity 2 and 4, nesting depth 2; Owning/Lending/StaticRef leaves); Vec containers bounded in the element count (reported as bounded). The macro's choice of output kind is checked per catalogue instance only (9 composite shapes x elided/named receiver lifetime, on the real #[unimock] expansion); beyond the catalogue it is not covered.",
        "design_ref": "DESIGN.md §4 C17",
        "level_note": "Trusted: Kani/CBMC; parametricity in the leaf type; catalogue of instantiations.",
        "technique": "function contracts: Kani full-domain contract harnesses per container x leaf-kind instantiation",
    },
    "C12": {
        "level_text": "Proof per instantiation over all leaf values (u8 leaves; generic impls are parametric in T): single-use vs repeatable contracts of Owning and of the builder paths that choose between them, and of the composite containers. Partial: races between threads and the compile-fail half are out of reach.",
        "design_ref": "DESIGN.md §4 C12",
        "level_note": "Trusted: Kani/CBMC; parametricity of the generic impls in the leaf type; std Mutex.",
        "technique": "function contracts: Kani full-domain contract harnesses per instantiation",
    },
    "C14": {
        "level_text": "Proof per function over all inputs: 15 tuple impls (recording sink, symbolic success/failure per element), assembler push cases, empty stub; flattening lemma by structural induction over clause trees. Partial: the compile-time half has no runtime obligation.",
        "design_ref": "DESIGN.md §4 C14",
        "level_note": "Trusted: Kani/CBMC, Verus/Z3, BTreeMap keyed by TypeId; compile-fail half not applicable.",
        "technique": "function contracts: Kani full-domain contract harnesses per tuple arity and assembler case + Verus structural-induction lemma",
    },
    "C01": {
        "level_text": "Proof for all pattern-list lengths: the verbatim first-match scan of DynCtx::match_call_pattern is verified by Verus against the statement (earliest-declared non-rejecting pattern answers; None when all reject), with the std contract of `iter().enumerate().filter_map(f).next()` assumed (as binary_search_by is) and cross-checked by bounded Kani twins on the compiled std; eval_dyn (selection -> responder, unmentioned/unmatched fall-through) and MockAssembler::push/finish (append in clause order, other methods untouched) are verified for all states; counter frame / fetch_add by Kani over the full domain; history lemmas over the contracts.",
        "design_ref": "DESIGN.md §4 C01",
        "level_note": "Trusted: std iterator-adapter contract (abstraction point), BTreeMap get/entry contracts (stand-in), the matcher closure is an uninterpreted verdict function; Kani/CBMC, Verus/Z3. Bounded Kani twins (patterns <= 3 quick / 5 thorough) additionally check counters and the global index are not modified.",
        "technique": "function contracts: Verus requires/ensures on the extracted match_call_pattern / eval_dyn / push / finish + Kani contract harnesses (counter full-domain; bounded twins) + Verus lemmas",
    },
    "C09": {
        "level_text": "Proof for all instance states and environments (flags, strong count, thread ids, recorded reasons, pattern counts): function contracts on the extracted lifecycle functions with panic sites as precondition-carrying stubs, plus lemmas. Partial: real threads, Arc counting and helper clones are trusted/abstracted.",
        "design_ref": "DESIGN.md §4 C09",
        "level_note": "Trusted: Verus/Z3, extraction rules (R1 panic stubs, Rcfg, R4, Rdrop, Rmutself logged), abstraction points (Arc::strong_count, thread id, panicking(), BTreeMap iteration as association list).",
        "technique": "function contracts: Verus requires/ensures on extracted functions, panic sites as stubs with permitted-panic preconditions, lemmas",
    },
    "C11": {
        "level_text": "Proof for all instance states: the guard order in teardown is an obligation (stub preconditions at the real call sites), lemma no_double_panic over the permitted-panic predicates. Partial: process abort behaviour, user Drop impls and lock poisoning are not expressible as function contracts here.",
        "design_ref": "DESIGN.md §4 C11",
        "level_note": "Trusted: as C09; std feature set only (the no_std `panicked` flag variant is not extracted).",
        "technique": "function contracts: Verus stub preconditions at panic sites of the extracted teardown + lemma",
    },
    "C08": {
        "level_text": "Proof for all states of the forwarding rule in teardown and of record-before-panic in induce_panic (ghost flag); bounded check that reading the recorded list does not clear it. Partial: which generated code paths reach induce_panic, threads and catch_unwind are outside.",
        "design_ref": "DESIGN.md §4 C08",
        "level_note": "Trusted: as C09; the push under the lock is abstracted as a ghost `record` operation.",
        "technique": "function contracts with ghost state: Verus on extracted teardown / induce_panic / handle_error + bounded Kani harness",
    },
    "C04": {
        "level_text": "Proof for all inputs and all list lengths: range assignment (new_call_pattern, Verus + Kani full domain), partition / owner lemmas, the ordered lookup find_call_pattern_for_call_order and the ordered arm of match_call_pattern (Verus on the verbatim functions, std iterator contract assumed, matcher as an uninterpreted verdict). That the global index is bumped by exactly one per ordered call is interior mutability and is checked by the bounded Kani twins only.",
        "design_ref": "DESIGN.md §4 C04",
        "level_note": "Trusted: Verus/Z3, Kani/CBMC; harnesses needing a SharedState build the no_std+spin-lock feature set (Kani ICE on std::thread::current); the functions under contract contain no cfg.",
        "technique": "function contracts: Kani contract harnesses (range assignment full-domain; scans bounded) + Verus induction lemmas over the contracts",
    },
    "C03": {
        "level_text": "Proof, per function, for all inputs: CallCounter::verify's iff over all 2^64 x 2^64 x 3 (actual, minimum, exactness) [Kani, loop-free, complete]; expectation arithmetic and builder contracts for all values and all responder-list lengths [Verus]; lemma from the contracts to the three expectation shapes of the statement [Verus]. The per-method sum (FnMocker::verify) is bounded in the number of patterns and reported as bounded. Message text is not covered.",
        "design_ref": "DESIGN.md §4 C03",
        "level_note": "Trusted: Verus/Z3, Kani/CBMC, extraction rules (logged), std Vec/Atomic contracts, BTreeMap iteration visits every method once (abstraction point). format! stubbed.",
        "technique": "function contracts: Kani full-domain contract harness + Verus requires/ensures on extracted functions + Verus lemma",
    },
    "C02": {
        "level_text": "Proof for all inputs and all list lengths: segment lookup contract on the verbatim find_responder_by_call_index [Verus, trusted binary_search_by contract], builder index arithmetic [Verus], chain lemma [Verus]; type-state wrappers and single-use values per function [Kani, loop-free]. next_responder on lists with duplicate indexes is bounded (list length).",
        "design_ref": "DESIGN.md §4 C02",
        "level_note": "Trusted: documented contract of <[T]>::binary_search_by; for equal start indexes only the bounded Kani twin (compiled std) applies.",
        "technique": "function contracts: Verus requires/ensures on extracted functions + Verus induction lemma + Kani contract harnesses",
    },
}
