#!/usr/bin/env python3
"""Writes baseline/obligations.json: the obligation ids every run must produce (vacuity guard 1)."""
import json, os, sys
sys.path.insert(0, os.path.dirname(os.path.abspath(__file__)))
import extract, kani, verus, registry

def main():
    res = {}
    for prop in sorted(registry.PROPS):
        res[prop] = {}
        for tier in ("quick", "thorough"):
            ids = []
            for tmpl in verus.select(prop, tier):
                base = os.path.basename(tmpl)[:-len(".rs.tmpl")]
                g = extract.expand(tmpl)
                for f in extract.scan_functions(g.text):
                    if f["kind"] == "spec" or f["external"] or f["name"] == "main":
                        continue
                    props = g.fn_props.get(f["name"], verus.header(tmpl).get("props", "").split(","))
                    if prop in props:
                        ids.append("V:%s::%s" % (base, f["name"]))
            for h in kani.select(prop, tier):
                ids.append(h.oid)
            res[prop][tier] = ids
    os.makedirs(os.path.dirname(registry.BASELINE), exist_ok=True)
    json.dump(res, open(registry.BASELINE, "w"), indent=1)
    for p in res:
        print(p, {t: len(v) for t, v in res[p].items()})

main()
