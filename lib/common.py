"""Shared helpers for the unimock contract-verification checks."""
import json
import os
import shutil
import subprocess
import sys
import time

VERIF = os.path.dirname(os.path.dirname(os.path.abspath(__file__)))
REPO = os.environ.get("VERIF_REPO", "/repo")
SCRATCH_ROOT = os.environ.get("VERIF_SCRATCH", "/var/tmp")
EVIDENCE_DIR = os.environ.get("VERIF_EVIDENCE_DIR", os.path.join(VERIF, "evidence"))
REPLAY_DIR = os.environ.get("VERIF_REPLAY_DIR", os.path.join(VERIF, "replay"))
KNOWN_FINDINGS = os.path.join(VERIF, "known_findings.txt")

EXIT_OK = 0
EXIT_VIOLATION = 1
EXIT_UNDECIDED = 2


class Undecided(Exception):
    """Tool crash, lost anchor, compile error, timeout: the check cannot decide."""


def log(msg):
    print(msg, flush=True)


def run(cmd, cwd=None, env=None, timeout=None, stdin=None):
    """Run a command, return (rc, combined output, seconds). rc = -9 on timeout."""
    e = dict(os.environ)
    e["CARGO_NET_OFFLINE"] = "true"
    if env:
        e.update(env)
    t0 = time.time()
    try:
        p = subprocess.run(
            cmd,
            cwd=cwd,
            env=e,
            stdout=subprocess.PIPE,
            stderr=subprocess.STDOUT,
            timeout=timeout,
            input=stdin,
            text=True,
            errors="replace",
        )
        return p.returncode, p.stdout, time.time() - t0
    except subprocess.TimeoutExpired as ex:
        out = ex.stdout or ""
        if isinstance(out, bytes):
            out = out.decode("utf-8", "replace")
        return -9, out + "\n[timeout after %ss]" % timeout, time.time() - t0


def make_scratch(tag):
    d = os.path.join(SCRATCH_ROOT, "unimock-verif-%s-%d" % (tag, os.getpid()))
    shutil.rmtree(d, ignore_errors=True)
    os.makedirs(d)
    return d


def copy_repo(dst):
    """Copy /repo's current working tree (no target/, no .git) to dst."""
    rc, out, _ = run(
        ["rsync", "-a", "--exclude", "/target", "--exclude", ".git", REPO + "/", dst + "/"]
    )
    if rc != 0:
        raise Undecided("rsync of %s failed: %s" % (REPO, out))
    # Cargo.lock is git-ignored in unimock: a scratch worktree has none; pin the dependency versions of /repo
    lock = os.path.join(dst, "Cargo.lock")
    if not os.path.exists(lock) and os.path.exists("/repo/Cargo.lock"):
        shutil.copy("/repo/Cargo.lock", lock)


def read_known_findings():
    """known_findings.txt lines:  finding: property=<id> obligation=<id> <what fails>
                                  fixed: property=<id> <commit> <what failed>   (suppresses nothing)"""
    res = []
    if not os.path.exists(KNOWN_FINDINGS):
        return res
    for line in open(KNOWN_FINDINGS):
        line = line.strip()
        if not line or line.startswith("#"):
            continue
        if line.startswith("finding:"):
            fields = dict(
                kv.split("=", 1) for kv in line[len("finding:"):].split() if "=" in kv
            )
            res.append({"property": fields.get("property"), "obligation": fields.get("obligation"), "text": line})
    return res


def write_evidence(prop, data):
    os.makedirs(EVIDENCE_DIR, exist_ok=True)
    path = os.path.join(EVIDENCE_DIR, prop + ".json")
    tmp = path + ".tmp"
    with open(tmp, "w") as f:
        json.dump(data, f, indent=1, sort_keys=False)
        f.write("\n")
    os.replace(tmp, path)
    return path


def write_replay(name, text):
    os.makedirs(REPLAY_DIR, exist_ok=True)
    path = os.path.join(REPLAY_DIR, name)
    with open(path, "w") as f:
        f.write(text)
    return path
