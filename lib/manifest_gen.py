#!/usr/bin/env python3
"""Regenerates MANIFEST.json from lib/registry.py + lib/manifest_data.py (keeps it valid by construction)."""
import json, os, sys
sys.path.insert(0, os.path.dirname(os.path.abspath(__file__)))
import registry, manifest_data as md

checks = []
for pid in sorted(registry.PROPS):
    m = md.CHECKS[pid]
    checks.append({
        "property_id": pid,
        "quick_cmd": "./check %s --tier quick" % pid,
        "thorough_cmd": "./check %s --tier thorough" % pid,
        "evidence_file": "/verif/evidence/%s.json" % pid,
        "replay_cmd_template": "./check %s --replay {path}" % pid,
        "engine": "contracts",
        "level_claimed": {"category": "proof", "text": m["level_text"], "design_ref": m["design_ref"]},
        "level_note": m["level_note"],
        "technique": m["technique"],
    })
na = [{"property_id": p, "reason": r} for p, r in sorted(md.NOT_APPLICABLE.items()) if p not in registry.PROPS]
man = {
    "version": 1,
    "setup_cmd": "./setup.sh",
    "hooks": {
        "guard": "kani",
        "enable": "no hook is committed to /repo: checks copy /repo's working tree to a scratch directory and append #[cfg(kani)] harness modules / insert #[cfg_attr(kani, kani::requires|ensures|modifies(..))] attributes there (cfg(kani) is set only by the Kani compiler); Tier V extracts function text from /repo on every run",
        "baseline_off_cmd": "cd /repo && cargo test --workspace --no-fail-fast --offline",
        "source_commits": [],
        "add_only": True,
    },
    "engines": [{
        "name": "contracts", "path": "/verif/check",
        "serves_properties": sorted(registry.PROPS),
        "kind_free_text": "contract-based deductive verification: Verus (Z3) on functions extracted verbatim from /repo each run + Kani (CBMC) function contracts / contract harnesses on the real crate; lemmas in Verus compose the contracts into the properties",
    }],
    "checks": checks,
    "not_applicable": na,
    "notes": md.NOTES,
}
json.dump(man, open(os.path.join(registry.VERIF, "MANIFEST.json"), "w"), indent=1)
print("MANIFEST.json: %d checks, %d not_applicable" % (len(checks), len(na)))
