"""Tier K: Kani on the real crate compiled in place (scratch copy of /repo's working tree).

Harness files live in /verif/contracts/kani/*.rs.  File header directives:
  //@module src/counter.rs            file that receives `#[cfg(kani)] #[path=..] mod __verif_x;`
  //@contract src/counter.rs /regex of the fn line/
  //@  #[cfg_attr(kani, kani::requires(..))]        lines inserted verbatim ABOVE the matched line
  //@end
  //@append src/lib.rs                lines appended verbatim (cfg(kani)-guarded hooks)
  //@  ...
  //@end
Harness annotation (line directly above the #[kani::proof...] attribute stack):
  //@K props=C03,C01 tier=quick label=full|bnd|inst feat=std|nostd fn=CallCounter::verify [bound=N<=3] [timeout=300]
"""
import json
import os
import re
import shutil

from common import VERIF, REPO, Undecided, copy_repo, log, make_scratch, run

KDIR = os.path.join(VERIF, "contracts", "kani")

FEATURES = {
    "std": [],
    "ext": [],
    "nostd": ["--no-default-features", "--features", "spin-lock,critical-section"],
    "nomutex": ["--no-default-features", "--features", "critical-section"],
}


class Harness:
    def __init__(self, file, name, attrs, module_file, modname):
        self.file = file
        self.name = name
        self.props = attrs.get("props", "").split(",")
        self.tier = attrs.get("tier", "quick")
        self.label = attrs.get("label", "full")
        self.feat = attrs.get("feat", "std")
        self.fn = attrs.get("fn", "")
        self.bound = attrs.get("bound", "")
        self.timeout = int(attrs.get("timeout", "600"))
        self.ext = file.ext
        if file.ext:
            self.full = "%s::%s" % (file.base, name)
            self.oid = "K:%s:verif_ext::%s" % (self.feat, self.full)
            return
        modpath = module_file[len("src/"):-len(".rs")].replace("/", "::")
        if modpath == "lib":
            self.full = "%s::%s" % (modname, name)
        else:
            if modpath.endswith("::mod"):
                modpath = modpath[: -len("::mod")]
            self.full = "%s::%s::%s" % (modpath, modname, name)
        self.oid = "K:%s:%s" % (self.feat, self.full)


class KFile:
    def __init__(self, path):
        self.path = path
        self.base = os.path.basename(path)[:-3]
        self.modname = "__verif_" + self.base
        self.module = None
        self.contracts = []  # (file, regex, [lines])
        self.appends = []  # (file, [lines])
        self.harnesses = []
        self.needs = []
        self.ext = any(l.startswith("//@extcrate") for l in open(path))
        self._parse()

    def _parse(self):
        lines = open(self.path).read().split("\n")
        i = 0
        while i < len(lines):
            l = lines[i]
            if l.startswith("//@module "):
                self.module = l.split()[1]
            elif l.startswith("//@needs "):
                self.needs += l.split()[1:]
            elif l.startswith("//@contract "):
                m = re.match(r"//@contract (\S+) /(.*)/\s*$", l)
                if not m:
                    raise Undecided("bad //@contract directive in %s: %s" % (self.path, l))
                body = []
                i += 1
                while not lines[i].startswith("//@end"):
                    body.append(lines[i][len("//@"):].lstrip(" ") if lines[i].startswith("//@") else lines[i])
                    i += 1
                self.contracts.append((m.group(1), m.group(2), body))
            elif l.startswith("//@append "):
                f = l.split()[1]
                body = []
                i += 1
                while not lines[i].startswith("//@end"):
                    body.append(lines[i][len("//@"):].lstrip(" ") if lines[i].startswith("//@") else lines[i])
                    i += 1
                self.appends.append((f, body))
            elif l.startswith("//@K "):
                attrs = dict(kv.split("=", 1) for kv in l[len("//@K "):].split())
                j = i + 1
                hrx = r"\s*(?:(?:pub(?:\(crate\))? )?fn (\w+)|\w+!\((\w+))"
                while j < len(lines) and not re.match(hrx, lines[j]):
                    j += 1
                mm = re.match(hrx, lines[j])
                name = mm.group(1) or mm.group(2)
                self.harnesses.append(Harness(self, name, attrs, self.module, self.modname))
            i += 1
        if self.module is None and not self.ext:
            raise Undecided("no //@module in %s" % self.path)


def load_all():
    files = []
    for f in sorted(os.listdir(KDIR)):
        if f.endswith("_h.rs"):
            files.append(KFile(os.path.join(KDIR, f)))
    return files


def select(prop, tier):
    """Harnesses of a property for a tier (thorough includes quick)."""
    res = []
    for kf in load_all():
        for h in kf.harnesses:
            if prop in h.props and (h.tier == "quick" or tier == "thorough"):
                res.append(h)
    return res


def prepare(scratch, kfiles):
    """Copy the working tree and inject harness modules + in-place contract attributes.
    Append/insert only: nothing in the copied sources is rewritten or deleted."""
    copy_repo(scratch)
    applied = []
    # close over //@needs (helper modules of other files)
    todo = list(kfiles)
    seen = {kf.base for kf in todo}
    while todo:
        kf = todo.pop()
        for nd in kf.needs:
            if nd not in seen:
                seen.add(nd)
                nk = KFile(os.path.join(KDIR, nd + ".rs"))
                kfiles = kfiles + [nk]
                todo.append(nk)
    ext_files = [kf for kf in kfiles if kf.ext]
    for kf in kfiles:
        for (file, body) in (kf.appends if kf.ext else []):
            with open(os.path.join(scratch, file), "a") as f:
                f.write("\n" + "\n".join(body) + "\n")
            applied.append("cfg(kani) hook appended to %s" % file)
    kfiles = [kf for kf in kfiles if not kf.ext]
    if ext_files:
        ext = os.path.join(scratch, "verif_ext")
        os.makedirs(os.path.join(ext, "src"))
        with open(os.path.join(ext, "Cargo.toml"), "w") as f:
            f.write('[package]\nname = "verif_ext"\nversion = "0.0.0"\nedition = "2021"\n\n[dependencies]\nunimock = { path = ".." }\n\n[workspace]\n')
        mods = []
        for kf in ext_files:
            shutil.copy(kf.path, os.path.join(ext, "src", kf.base + ".rs"))
            mods.append("#[cfg(kani)]\nmod %s;\n" % kf.base)
        with open(os.path.join(ext, "src", "lib.rs"), "w") as f:
            f.write("// external harness crate: uses the real unimock_macros through the scratch copy of unimock\nextern crate alloc;\n" + "".join(mods))
        shutil.copy(os.path.join(scratch, "Cargo.lock"), os.path.join(ext, "Cargo.lock"))
        applied.append("external harness crate verif_ext created (depends on the scratch copy by path)")
    for kf in kfiles:
        dst = os.path.join(scratch, os.path.dirname(kf.module), kf.modname + ".rs")
        shutil.copy(kf.path, dst)
        modfile = os.path.join(scratch, kf.module)
        if not os.path.exists(modfile):
            raise Undecided("lost anchor: module file %s missing" % kf.module)
        with open(modfile, "a") as f:
            f.write('\n#[cfg(kani)]\n#[path = "%s.rs"]\npub(crate) mod %s;\n' % (kf.modname, kf.modname))
        applied.append("mod %s appended to %s" % (kf.modname, kf.module))
        for (file, rx, body) in kf.contracts:
            p = os.path.join(scratch, file)
            src = open(p).read().split("\n")
            hits = [n for n, l in enumerate(src) if re.search(rx, l)]
            if len(hits) != 1:
                raise Undecided("lost anchor: /%s/ matched %d lines in %s" % (rx, len(hits), file))
            n = hits[0]
            indent = re.match(r"\s*", src[n]).group(0)
            src[n:n] = [indent + b for b in body]
            open(p, "w").write("\n".join(src))
            applied.append("contract attributes inserted above /%s/ in %s" % (rx, file))
        for (file, body) in kf.appends:
            p = os.path.join(scratch, file)
            with open(p, "a") as f:
                f.write("\n" + "\n".join(body) + "\n")
            applied.append("cfg(kani) hook appended to %s" % file)
    # cfg(kani)-only helper crate with stubs that need `unsafe` (the unimock crate forbids unsafe_code)
    stubs = os.path.join(scratch, "verif_stubs")
    shutil.copytree(os.path.join(KDIR, "verif_stubs"), stubs)
    with open(os.path.join(scratch, "Cargo.toml"), "a") as f:
        f.write('\n[target.\'cfg(kani)\'.dependencies]\nverif_stubs = { path = "verif_stubs" }\n')
    applied.append("Cargo.toml: [target.'cfg(kani)'.dependencies] verif_stubs (path crate) appended")
    return applied


def run_harnesses(scratch, feat, harnesses, jobs=8):
    """Run the given harnesses (one feature set) and return {oid: result dict}."""
    if feat == "ext":
        scratch = os.path.join(scratch, "verif_ext")
    resfile = os.path.join(scratch, "kani-result-%s.json" % feat)
    if os.path.exists(resfile):
        os.remove(resfile)
    tmo = max(h.timeout for h in harnesses)
    cmd = ["cargo", "kani", "-Z", "function-contracts", "-Z", "stubbing", "-Z", "unstable-options",
           "--exact", "-j", str(jobs), "--output-format", "terse",
           "--harness-timeout", "%ds" % tmo, "--export-json", resfile] + FEATURES[feat]
    for h in harnesses:
        cmd += ["--harness", h.full]
    rc, out, secs = run(cmd, cwd=scratch, timeout=tmo * 3 + 900)
    cmd_str = "CARGO_NET_OFFLINE=true " + " ".join(cmd)
    results = {}
    if not os.path.exists(resfile):
        kind = "compile-or-tool-error"
        if "internal compiler error" in out or "Kani unexpectedly panicked" in out:
            kind = "kani-ice"
        tail = "\n".join(out.split("\n")[-60:])
        for h in harnesses:
            results[h.oid] = {"status": "undecided", "reason": kind, "output": tail, "seconds": 0.0, "checks": 0}
        return results, cmd_str, secs, out
    d = json.load(open(resfile))
    by_id = {r["harness_id"]: r for r in d.get("verification_results", {}).get("results", [])}
    errs = {e["harness_id"]: e for e in d.get("error_details", [])}
    pdet = {p["harness_id"]: p["property_details"] for p in d.get("property_details", [])}
    cb = {c["harness_id"]: c for c in (d.get("cbmc") or []) if c}
    should_panic = {m.get("pretty_name"): bool((m.get("attributes") or {}).get("should_panic")) for m in d.get("harness_metadata", [])}
    for h in harnesses:
        r = by_id.get(h.full)
        if r is None:
            results[h.oid] = {"status": "undecided", "reason": "harness not found in Kani result (not compiled / filtered out)",
                              "output": "\n".join(out.split("\n")[-40:]), "seconds": 0.0, "checks": 0}
            continue
        pd = pdet.get(h.full, {})
        failed = [c for c in r.get("checks", []) if c.get("status") in ("Failure", "Failed")]
        uncovered = [c for c in r.get("checks", []) if c.get("category") == "cover" and c.get("status") not in ("Satisfied",)]
        undet = [c for c in r.get("checks", []) if c.get("status") in ("Undetermined",)]
        ncover = len([c for c in r.get("checks", []) if c.get("category") == "cover"])
        res = {
            "seconds": r.get("duration_ms", 0) / 1000.0,
            "checks": pd.get("total_properties", len(r.get("checks", []))),
            "covers": ncover,
            "solver_s": ((cb.get(h.full) or {}).get("cbmc_stats") or {}).get("runtime_decision_procedure_s"),
            "error": errs.get(h.full, {}),
        }
        st = r.get("status")
        if should_panic.get(h.full) and st == "Success":
            # #[kani::should_panic]: Kani reports Success only if a panic was found and nothing but panics failed
            failed = []
        elif should_panic.get(h.full) and not failed and (errs.get(h.full) or {}).get("exit_status") not in ("timeout", "out_of_memory"):
            failed = [{"description": "the panic this contract REQUIRES did not occur", "location": {}, "function": h.full}]
        if st == "Success" and not failed and not uncovered and not undet and ncover > 0:
            res["status"] = "ok"
        elif st == "Success" and ncover == 0:
            res["status"] = "undecided"
            res["reason"] = "vacuity guard: harness has no cover property"
        elif uncovered and not failed:
            res["status"] = "undecided"
            res["reason"] = "vacuity guard: cover not satisfied: %s" % "; ".join(c["description"] for c in uncovered)
        elif failed:
            # unwinding assertion failures mean the harness bound is wrong -> undecided, never an alarm
            unwind = [c for c in failed if "unwinding assertion" in c.get("description", "")]
            unsupported = [c for c in failed if "unsupported" in c.get("description", "").lower() or c.get("category") == "unsupported_construct"]
            if unwind and len(unwind) == len(failed):
                res["status"] = "undecided"
                res["reason"] = "unwinding assertion failed (bound too small for this tree)"
            elif unsupported and len(unsupported) == len(failed):
                res["status"] = "undecided"
                res["reason"] = "unsupported construct reached: " + unsupported[0].get("description", "")
            else:
                res["status"] = "failed"
            res["failed_checks"] = [
                "%s @ %s:%s in %s" % (c.get("description"), c.get("location", {}).get("file"), c.get("location", {}).get("line"), c.get("function"))
                for c in failed
            ]
        else:
            res["status"] = "undecided"
            et = errs.get(h.full, {})
            res["reason"] = "kani status %s (%s / %s)" % (st, et.get("error_type"), et.get("exit_status"))
        results[h.oid] = res
    return results, cmd_str, secs, out


def playback(scratch, feat, h):
    """Turn the counterexample of a failed harness into a native unit test and run it
    against the real code (in the scratch copy of the working tree).
    Returns (reproduced: bool, text)."""
    if h.ext:
        scratch = os.path.join(scratch, "verif_ext")
    base = ["-Z", "function-contracts", "-Z", "stubbing", "-Z", "unstable-options", "-Z", "concrete-playback"]
    cmd = ["cargo", "kani"] + base + ["--concrete-playback=print", "--exact", "--harness", h.full,
                                      "--harness-timeout", "%ds" % h.timeout, "--output-format", "terse"] + FEATURES[h.feat]
    rc, out, _ = run(cmd, cwd=scratch, timeout=h.timeout * 2 + 600)
    blocks = re.findall(r"```\n(.*?)\n```", out, re.S)
    tests = []
    for b in blocks:
        m = re.search(r"fn (kani_concrete_playback_\w+)\s*\(\)", b)
        if not m:
            continue
        is_cover = re.search(r"Check for `cover`", b) is not None
        if not is_cover:
            tests.append((m.group(1), b))
    if not tests:
        return False, "concrete playback produced no test case for a failed check\n" + "\n".join(out.split("\n")[-30:])
    if h.ext:
        hfile = os.path.join(scratch, "src", h.file.base + ".rs")
    else:
        hfile = os.path.join(scratch, os.path.dirname(h.file.module), h.file.modname + ".rs")
    seen = set()
    with open(hfile, "a") as f:
        for (name, b) in tests:
            if name in seen:
                continue
            seen.add(name)
            f.write("\n" + b + "\n")
    text = ""
    reproduced = False
    for name in sorted(seen):
        cmd2 = ["cargo", "kani", "playback", "-Z", "concrete-playback"] + FEATURES[h.feat] + ["--", name]
        rc2, out2, _ = run(cmd2, cwd=scratch, timeout=900)
        rep = "test result: FAILED" in out2
        reproduced = reproduced or rep
        src = [b for (n, b) in tests if n == name][0]
        text += "concrete counterexample (Kani concrete playback), generated test:\n%s\n\nnative run against the real code (`%s`): %s\n%s\n\n" % (
            src, " ".join(cmd2), "FAILED as predicted (violation reproduced)" if rep else "did not fail natively",
            "\n".join([l for l in out2.split("\n") if not l.startswith("warning") and l.strip()][-25:]))
        if rep:
            break
    return reproduced, text
