#!/usr/bin/env python3
"""Confirms every seeded change in seeded-inbox/ in a scratch worktree of /repo (outside /repo and /verif):
   demo passes without the change, fails with it, and the existing suite still passes with it.
   Writes seeded/<id>/{patch.diff,demo.rs,notes.md,meta.json} for confirmed ones."""
import json, os, re, shutil, subprocess, sys
INBOX = "/verif/seeded-inbox"; OUT = "/verif/seeded"; WT = "/tmp/wt-confirm"; TGT = "/tmp/wt-confirm-target"
def sh(cmd, cwd=None):
    e = dict(os.environ, CARGO_NET_OFFLINE="true", CARGO_TARGET_DIR=TGT)
    p = subprocess.run(cmd, shell=True, cwd=cwd, env=e, stdout=subprocess.PIPE, stderr=subprocess.STDOUT, text=True)
    return p.returncode, p.stdout
only = sys.argv[1:]
sh("git -C /repo worktree remove --force %s" % WT); shutil.rmtree(WT, ignore_errors=True)
rc, out = sh("git -C /repo worktree add --detach %s HEAD" % WT); assert rc == 0, out
head = sh("git -C /repo rev-parse --short HEAD")[1].strip()
os.makedirs(OUT, exist_ok=True)
for sid in sorted(os.listdir(INBOX)):
    if only and sid not in only: continue
    d = os.path.join(INBOX, sid)
    prop, x = sid[:3], sid[3:]
    demo_name = "seed_%s_%s" % (prop, x)
    res = {"id": sid, "property": prop, "repo_commit": head}
    sh("git checkout -- . && git clean -fdq", cwd=WT)
    rc, out = sh("git apply --check %s/patch.diff" % d, cwd=WT)
    res["applies"] = rc == 0
    if rc != 0:
        res["confirmed"] = False; res["why"] = "patch does not apply to %s: %s" % (head, out[-300:])
        print(json.dumps(res)); continue
    shutil.copy(os.path.join(d, "demo.rs"), os.path.join(WT, "tests", demo_name + ".rs"))
    rc1, out1 = sh("cargo test --offline --test %s 2>&1 | tail -15" % demo_name, cwd=WT)
    res["demo_without_change"] = "pass" if re.search(r"test result: ok", out1) and not re.search(r"test result: FAILED", out1) else "fail"
    sh("git apply %s/patch.diff" % d, cwd=WT)
    rc2, out2 = sh("cargo test --offline --test %s 2>&1 | tail -25" % demo_name, cwd=WT)
    res["demo_with_change"] = "fail" if re.search(r"test result: FAILED|error: test failed|could not compile|SIGABRT|signal", out2) else "pass"
    os.remove(os.path.join(WT, "tests", demo_name + ".rs"))
    rc3, out3 = sh("cargo test --workspace --no-fail-fast --offline 2>&1 | grep -E '^test result|FAILED|error(\\[|:)'", cwd=WT)
    passed = sum(int(n) for n in re.findall(r"test result: ok\. (\d+) passed", out3))
    res["existing_suite_with_change"] = "%d passed%s" % (passed, "" if "FAILED" not in out3 and "error" not in out3 else " BUT: " + out3[-300:])
    res["confirmed"] = (res["demo_without_change"] == "pass" and res["demo_with_change"] == "fail" and passed == 127 and "FAILED" not in out3)
    print(json.dumps(res), flush=True)
    if res["confirmed"]:
        o = os.path.join(OUT, sid); os.makedirs(o, exist_ok=True)
        for f in ("patch.diff", "demo.rs", "notes.md"):
            shutil.copy(os.path.join(d, f), os.path.join(o, f))
        meta = {"id": sid, "breaks_property": prop,
                "needs_to_manifest": "see notes.md (written by the sub-agent that produced the change)",
                "produced_by": "fresh sub-agent given only the property record and its own scratch worktree",
                "confirmed_by_me": {"worktree": WT + " (removed afterwards)", "repo_commit": head,
                    "commands": ["git apply patch.diff", "cargo test --offline --test %s  (demo: passes without / fails with the change)" % demo_name,
                                 "cargo test --workspace --no-fail-fast --offline  (existing suite, demo removed)"],
                    "demo_without_change": res["demo_without_change"], "demo_with_change": res["demo_with_change"],
                    "existing_suite_with_change": res["existing_suite_with_change"]},
                "detected_by": "filled in by tools/seed_matrix.py"}
        json.dump(meta, open(os.path.join(o, "meta.json"), "w"), indent=1)
sh("git -C /repo worktree remove --force %s" % WT); shutil.rmtree(TGT, ignore_errors=True)
sh("git -C /repo worktree prune")
