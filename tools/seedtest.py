#!/usr/bin/env python3
"""seedtest.py <patch.diff> <prop> [<prop>...]   apply a seeded change to /repo, run the quick checks, revert.
Prints one line per property: rc and VIOLATION/UNDECIDED lines. Never leaves /repo modified."""
import subprocess, sys, os
patch = os.path.abspath(sys.argv[1])
props = sys.argv[2:]
tier = os.environ.get("TIER", "quick")
def sh(cmd, **kw):
    return subprocess.run(cmd, shell=True, stdout=subprocess.PIPE, stderr=subprocess.STDOUT, text=True, **kw)
st = sh("git -C /repo status --porcelain --untracked-files=no").stdout.strip()
if st:
    print("refusing: /repo is dirty:\n" + st); sys.exit(3)
r = sh("git -C /repo apply %s" % patch)
if r.returncode != 0:
    print("patch does not apply:", r.stdout); sys.exit(3)
try:
    for p in props:
        r = sh("cd /verif && ./check %s --tier %s" % (p, tier))
        lines = [l for l in r.stdout.split("\n") if l.startswith(("VIOLATION", "UNDECIDED", "KNOWN-FINDING", "property="))]
        print("%s rc=%d" % (p, r.returncode))
        for l in lines:
            print("   " + l[:300])
finally:
    sh("git -C /repo checkout -- . && git -C /repo clean -fdq -e target")
    st = sh("git -C /repo status --porcelain").stdout.strip()
    if st:
        print("WARNING: /repo not clean after revert:\n" + st)
