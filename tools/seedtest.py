#!/usr/bin/env python3
"""seedtest.py <patch.diff> <prop> [<prop>...]   apply a change in a PRIVATE scratch worktree of /repo (never in /repo),
run the checks against it (VERIF_REPO), remove the worktree.  Evidence/replay go to a temp dir.  env TIER=quick|thorough"""
import subprocess, sys, os, shutil
patch = os.path.abspath(sys.argv[1]); props = sys.argv[2:]; tier = os.environ.get("TIER", "quick")
WT = "/tmp/wt-seedtest-%d" % os.getpid(); TMP = "/tmp/seedtest-out-%d" % os.getpid()
def sh(cmd, **kw):
    return subprocess.run(cmd, shell=True, stdout=subprocess.PIPE, stderr=subprocess.STDOUT, text=True, **kw)
r = sh("git -C /repo worktree add --detach %s HEAD" % WT); assert r.returncode == 0, r.stdout
try:
    r = sh("git apply %s" % patch, cwd=WT)
    if r.returncode != 0:
        print("patch does not apply:", r.stdout); sys.exit(3)
    os.makedirs(TMP, exist_ok=True)
    env = dict(os.environ, VERIF_REPO=WT, VERIF_EVIDENCE_DIR=TMP, VERIF_REPLAY_DIR=TMP)
    for p in props:
        r = sh("cd /verif && ./check %s --tier %s" % (p, tier), env=env)
        print("%s rc=%d" % (p, r.returncode))
        for l in r.stdout.split("\n"):
            if l.startswith(("VIOLATION", "UNDECIDED", "KNOWN-FINDING", "property=")):
                print("   " + l[:300])
finally:
    sh("git -C /repo worktree remove --force %s" % WT); sh("git -C /repo worktree prune"); shutil.rmtree(TMP, ignore_errors=True)
