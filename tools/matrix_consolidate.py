#!/usr/bin/env python3
"""Rewrite seeded/MATRIX.md as ONE table (last row per seed wins), sorted by seed id, with recomputed totals."""
import re, os
P = os.path.join(os.path.dirname(os.path.abspath(__file__)), "..", "seeded", "MATRIX.md")
rows = {}
for l in open(P):
    m = re.match(r"\| (C\d\d[a-z]) \| ([^|]*) \| (.*) \|\s*$", l)
    if m:
        rows[m.group(1)] = (m.group(2).strip(), m.group(3).strip())
ids = sorted(rows)
det = [i for i in ids if rows[i][0].startswith("DETECTED")]
und = [i for i in ids if rows[i][0].startswith("UNDECIDED")]
mis = [i for i in ids if rows[i][0].startswith("MISSED")]
rep = [i for i in det if "counterexample replayed" in rows[i][1]]
out = ["# Seeded changes vs. the quick check of the property they break", "",
       "Produced by tools/seed_matrix.py (scratch worktree of /repo via VERIF_REPO; /repo itself untouched). The last run of each seed is shown; "
       "the commit of /repo each seed was confirmed against is in its meta.json.", "",
       "Totals: %d seeds: %d detected (exit 1; %d with a replayed counterexample), %d undecided (exit 2, no alarm), %d missed (exit 0)."
       % (len(ids), len(det), len(rep), len(und), len(mis)), "",
       "| seed | outcome | failed obligations (or reason) |", "|---|---|---|"]
for i in ids:
    out.append("| %s | %s | %s |" % (i, rows[i][0], rows[i][1]))
open(P, "w").write("\n".join(out) + "\n")
print(out[4])
print("undecided:", " ".join(und)); print("missed:", " ".join(mis))
