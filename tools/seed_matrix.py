#!/usr/bin/env python3
"""Runs every confirmed seeded change (seeded/<id>/patch.diff) against the quick check of the property it breaks, in a scratch
worktree of /repo (VERIF_REPO), with evidence/replay redirected to a temp dir; records the outcome in seeded/<id>/meta.json
and seeded/MATRIX.md.  Usage: seed_matrix.py [ids...]"""
import json, os, re, shutil, subprocess, sys, time
SEEDED = "/verif/seeded"; WT = "/tmp/wt-matrix"; TMP = "/tmp/seed-matrix-out"
def sh(cmd, cwd=None, env=None):
    e = dict(os.environ); e.update(env or {})
    p = subprocess.run(cmd, shell=True, cwd=cwd, env=e, stdout=subprocess.PIPE, stderr=subprocess.STDOUT, text=True)
    return p.returncode, p.stdout
only = sys.argv[1:]
sh("git -C /repo worktree remove --force %s" % WT); shutil.rmtree(WT, ignore_errors=True)
rc, out = sh("git -C /repo worktree add --detach %s HEAD" % WT); assert rc == 0, out
os.makedirs(TMP, exist_ok=True)
rows = []
for sid in sorted(os.listdir(SEEDED)):
    d = os.path.join(SEEDED, sid)
    if not os.path.isdir(d) or (only and sid not in only): continue
    prop = sid[:3]
    sh("git checkout -- . && git clean -fdq", cwd=WT)
    rc, out = sh("git apply %s/patch.diff" % d, cwd=WT)
    if rc != 0:
        rows.append((sid, "patch does not apply", "")); continue
    t0 = time.time()
    rc, out = sh("./check %s --tier quick" % prop, cwd="/verif",
                 env={"VERIF_REPO": WT, "VERIF_EVIDENCE_DIR": TMP, "VERIF_REPLAY_DIR": TMP, "VERIF_JOBS": os.environ.get("VERIF_JOBS", "8")})
    viol = re.findall(r"VIOLATION property=\S+ replay=\S*?-([VK]_[^\s]*?)\.txt( no-failing-input-found)?", out)
    und = re.findall(r"UNDECIDED property=\S+: (\S+)", out)
    verdict = {0: "MISSED (exit 0)", 1: "DETECTED (exit 1)", 2: "UNDECIDED (exit 2)"}.get(rc, "rc=%d" % rc)
    obl = [v[0] + (" [no-failing-input-found]" if v[1] else " [counterexample replayed]") for v in viol]
    rows.append((sid, verdict, "; ".join(obl) if obl else "; ".join(und)[:300]))
    meta_p = os.path.join(d, "meta.json")
    meta = json.load(open(meta_p))
    meta["detected_by"] = {"check": "./check %s --tier quick" % prop, "exit": rc, "verdict": verdict, "failed_obligations": obl,
                           "undecided": und, "wall_s": round(time.time() - t0)}
    json.dump(meta, open(meta_p, "w"), indent=1)
    print(sid, verdict, obl or und, flush=True)
with open(os.path.join(SEEDED, "MATRIX.md"), "a") as f:
    f.write("\n| seed | outcome of the property's quick check | failed obligations / reason |\n|---|---|---|\n")
    for r in rows:
        f.write("| %s | %s | %s |\n" % r)
sh("git -C /repo worktree remove --force %s" % WT); sh("git -C /repo worktree prune"); shutil.rmtree(TMP, ignore_errors=True)
