#!/bin/sh
# run_all.sh <tier>: every claimed check, sequentially; prints one summary line per property
tier=${1:-quick}
cd "$(dirname "$0")/.."
for p in $(python3 -c "import json;print(' '.join(c['property_id'] for c in json.load(open('MANIFEST.json'))['checks']))"); do
  start=$(date +%s)
  ./check $p --tier $tier > /tmp/run_all_$p.log 2>&1
  rc=$?
  echo "$p rc=$rc $(($(date +%s)-start))s $(grep '^property=' /tmp/run_all_$p.log)"
  grep -E '^(VIOLATION|UNDECIDED|KNOWN-FINDING)' /tmp/run_all_$p.log | cut -c1-300
done
