//@module src/clause.rs
// Tier K harness module, child of src/clause.rs: contracts of the 15 tuple impls of `Clause` (C14).
use super::*;
#[allow(unused_imports)]
use crate::{Clause, MockFnInfo};
#[allow(unused_imports)]
use crate::alloc::{vec, String, Vec};
use core::cell::Cell;

struct NullSink;
impl term::Sink for NullSink {
    fn push(&mut self, _info: MockFnInfo, _builder: crate::build::dyn_builder::DynCallPatternBuilder) -> Result<(), String> {
        Ok(())
    }
}

struct Log {
    seq: Cell<[u8; 17]>,
    n: Cell<usize>,
}

/// an element clause: records its tag when deconstructed, then succeeds or fails as told
struct El<'a> {
    tag: u8,
    fail: bool,
    log: &'a Log,
}

impl<'a> Clause for El<'a> {
    fn deconstruct(self, _sink: &mut dyn term::Sink) -> Result<(), String> {
        let mut s = self.log.seq.get();
        let n = self.log.n.get();
        assert!(n < 17); // each element at most once
        s[n] = self.tag;
        self.log.seq.set(s);
        self.log.n.set(n + 1);
        if self.fail { Err(String::new()) } else { Ok(()) }
    }
}

macro_rules! tuple_harness {
    ($name:ident, $n:expr, [$($i:expr),+]) => {
        /// Clause for the tuple of this arity: elements are deconstructed in index order 0..n-1, each exactly once (none dropped,
        /// duplicated or reordered); Ok(()) iff no element fails.  Failure pattern symbolic (all 2^n subsets).
        #[kani::proof]
        #[kani::unwind(19)]
        fn $name() {
            const N: usize = $n;
            let log = Log { seq: Cell::new([255u8; 17]), n: Cell::new(0) };
            let fails: u16 = kani::any();
            let t = ($(El { tag: $i as u8, fail: (fails >> $i) & 1 == 1, log: &log }),+,);
            let mut sink = NullSink;
            let r = t.deconstruct(&mut sink);
            // first failing index
            let mut first: usize = N;
            let mut j = N;
            while j > 0 {
                j -= 1;
                if (fails >> j) & 1 == 1 {
                    first = j;
                }
            }
            // no clause dropped, duplicated or reordered: what was deconstructed is 0, 1, 2, .. in index order
            let n_logged = log.n.get();
            let s = log.seq.get();
            let mut k = 0;
            while k < n_logged {
                assert!(s[k] as usize == k);
                k += 1;
            }
            if first == N {
                assert!(n_logged == N); // every clause exactly once
            } else {
                assert!(n_logged > first && n_logged <= N); // the failing clause was reached
            }
            assert!(r.is_err() == (first < N));
            kani::cover!(first == N);
            kani::cover!(first == N - 1);
            kani::cover!(first == 0);
            core::mem::forget(r);
        }
    };
}

//@K props=C14,C01,C04,C18 tier=quick label=full feat=std fn=<(T1,T2)asClause>::deconstruct
tuple_harness!(tuple_2, 2, [0, 1]);
//@K props=C14,C01,C04,C18 tier=quick label=full feat=std fn=<(T1..T3)asClause>::deconstruct
tuple_harness!(tuple_3, 3, [0, 1, 2]);
//@K props=C14,C01,C04,C18 tier=quick label=full feat=std fn=<(T1..T4)asClause>::deconstruct
tuple_harness!(tuple_4, 4, [0, 1, 2, 3]);
//@K props=C14,C01,C04,C18 tier=quick label=full feat=std fn=<(T1..T5)asClause>::deconstruct
tuple_harness!(tuple_5, 5, [0, 1, 2, 3, 4]);
//@K props=C14,C01,C04,C18 tier=quick label=full feat=std fn=<(T1..T6)asClause>::deconstruct
tuple_harness!(tuple_6, 6, [0, 1, 2, 3, 4, 5]);
//@K props=C14,C01,C04,C18 tier=quick label=full feat=std fn=<(T1..T7)asClause>::deconstruct
tuple_harness!(tuple_7, 7, [0, 1, 2, 3, 4, 5, 6]);
//@K props=C14,C01,C04,C18 tier=quick label=full feat=std fn=<(T1..T8)asClause>::deconstruct
tuple_harness!(tuple_8, 8, [0, 1, 2, 3, 4, 5, 6, 7]);
//@K props=C14,C01,C04,C18 tier=quick label=full feat=std fn=<(T1..T9)asClause>::deconstruct
tuple_harness!(tuple_9, 9, [0, 1, 2, 3, 4, 5, 6, 7, 8]);
//@K props=C14,C01,C04,C18 tier=quick label=full feat=std fn=<(T1..T10)asClause>::deconstruct
tuple_harness!(tuple_10, 10, [0, 1, 2, 3, 4, 5, 6, 7, 8, 9]);
//@K props=C14,C01,C04,C18 tier=quick label=full feat=std fn=<(T1..T11)asClause>::deconstruct
tuple_harness!(tuple_11, 11, [0, 1, 2, 3, 4, 5, 6, 7, 8, 9, 10]);
//@K props=C14,C01,C04,C18 tier=quick label=full feat=std fn=<(T1..T12)asClause>::deconstruct
tuple_harness!(tuple_12, 12, [0, 1, 2, 3, 4, 5, 6, 7, 8, 9, 10, 11]);
//@K props=C14,C01,C04,C18 tier=quick label=full feat=std fn=<(T1..T13)asClause>::deconstruct
tuple_harness!(tuple_13, 13, [0, 1, 2, 3, 4, 5, 6, 7, 8, 9, 10, 11, 12]);
//@K props=C14,C01,C04,C18 tier=quick label=full feat=std fn=<(T1..T14)asClause>::deconstruct
tuple_harness!(tuple_14, 14, [0, 1, 2, 3, 4, 5, 6, 7, 8, 9, 10, 11, 12, 13]);
//@K props=C14,C01,C04,C18 tier=quick label=full feat=std fn=<(T1..T15)asClause>::deconstruct
tuple_harness!(tuple_15, 15, [0, 1, 2, 3, 4, 5, 6, 7, 8, 9, 10, 11, 12, 13, 14]);
//@K props=C14,C01,C04,C18 tier=quick label=full feat=std fn=<(T1..T16)asClause>::deconstruct
tuple_harness!(tuple_16, 16, [0, 1, 2, 3, 4, 5, 6, 7, 8, 9, 10, 11, 12, 13, 14, 15]);

/// Clause for (): Ok, pushes nothing.
//@K props=C14 tier=quick label=full feat=std fn=<()asClause>::deconstruct
#[kani::proof]
fn unit_clause() {
    struct CountSink(usize);
    impl term::Sink for CountSink {
        fn push(&mut self, _i: MockFnInfo, _b: crate::build::dyn_builder::DynCallPatternBuilder) -> Result<(), String> {
            self.0 += 1;
            Ok(())
        }
    }
    let mut s = CountSink(0);
    assert!(().deconstruct(&mut s).is_ok());
    assert!(s.0 == 0);
    kani::cover!(true);
}
