//@module src/call_pattern.rs
//@needs counter_h
// Tier K harness module, child of src/call_pattern.rs.
use super::*;
#[allow(unused_imports)]
use crate::{counter, debug, responder::DynResponder};
#[allow(unused_imports)]
use crate::alloc::{vec, String, Vec};
use crate::counter::__verif_counter_h as ch;

/// helper: a pattern without matcher function (fields of DynInputMatcher are private to call_pattern.rs)
pub(crate) fn mk_pattern(
    start: usize,
    end: usize,
    counter: counter::CallCounter,
    responders: Vec<DynCallOrderResponder>,
) -> CallPattern {
    CallPattern {
        input_matcher: DynInputMatcher { dyn_matching_fn: None, matcher_debug: None },
        responders,
        ordered_call_index_range: start..end,
        call_counter: counter,
    }
}

pub(crate) fn tag_responder(tag: u8) -> DynResponder {
    // Responder kinds without payload let the harness identify WHICH responder was selected
    match tag % 2 {
        0 => DynResponder::Unmock,
        _ => DynResponder::ApplyDefaultImpl,
    }
}

fn is_tag(r: &DynResponder, tag: u8) -> bool {
    match (r, tag % 2) {
        (DynResponder::Unmock, 0) => true,
        (DynResponder::ApplyDefaultImpl, 1) => true,
        _ => false,
    }
}

/// spec (C02): index of the LAST responder whose start index is <= c  (None if there is none)
fn governing(idx: &[usize], c: usize) -> Option<usize> {
    let mut res = None;
    let mut i = 0;
    while i < idx.len() {
        if idx[i] <= c {
            res = Some(i);
        }
        i += 1;
    }
    res
}

macro_rules! next_responder_harness {
    ($name:ident, $n:expr) => {
        /// CallPattern::next_responder (K-bnd in |responders|): result = governing responder at the
        /// PRE-increment counter value, counter += 1.  Start indexes: symbolic, non-decreasing, first == 0,
        /// duplicates allowed (n_times(0).then()).  Cross-checks the trusted binary_search_by contract of Tier V
        /// against the std implementation Kani compiles.
        #[kani::proof]
        #[kani::unwind(8)]
        fn $name() {
            const N: usize = $n;
            let mut idx = [0usize; N];
            let mut responders: Vec<DynCallOrderResponder> = Vec::with_capacity(N);
            let mut i = 0;
            while i < N {
                let v: usize = kani::any();
                if i == 0 {
                    kani::assume(v == 0);
                } else {
                    kani::assume(v >= idx[i - 1]);
                }
                idx[i] = v;
                // alternate tags so that neighbours are distinguishable
                responders.push(DynCallOrderResponder { response_index: v, responder: tag_responder(i as u8) });
                i += 1;
            }
            let c: usize = kani::any();
            kani::assume(c < usize::MAX);
            let p = mk_pattern(0, 0, ch::mk_counter(c, kani::any(), ch::any_exactness().1), responders);
            let r = p.next_responder();
            assert!(ch::peek(&p.call_counter) == c + 1);
            match governing(&idx, c) {
                None => {
                    assert!(N == 0);
                    assert!(r.is_none());
                }
                Some(g) => {
                    let r = r.unwrap();
                    assert!(is_tag(r, g as u8));
                    // identity, not just kind: the very element of the list
                    assert!(core::ptr::eq(r, &p.responders[g].responder));
                }
            }
            kani::cover!(N == 0 || r.is_some());
            core::mem::forget(p);
        }
    };
}

//@K props=C02 tier=quick label=bnd feat=std fn=CallPattern::next_responder bound=|responders|=0
next_responder_harness!(next_responder_n0, 0);
//@K props=C02 tier=quick label=bnd feat=std fn=CallPattern::next_responder bound=|responders|=1
next_responder_harness!(next_responder_n1, 1);
//@K props=C02 tier=quick label=bnd feat=std fn=CallPattern::next_responder bound=|responders|=2
next_responder_harness!(next_responder_n2, 2);
//@K props=C02 tier=quick label=bnd feat=std fn=CallPattern::next_responder bound=|responders|=3
next_responder_harness!(next_responder_n3, 3);
//@K props=C02 tier=thorough label=bnd feat=std fn=CallPattern::next_responder bound=|responders|=4
next_responder_harness!(next_responder_n4, 4);
//@K props=C02 tier=thorough label=bnd feat=std fn=CallPattern::next_responder bound=|responders|=5
next_responder_harness!(next_responder_n5, 5);

/// helper: a matcher without function but with a source location (line symbolic in callers)
pub(crate) fn mk_matcher(line: Option<u32>) -> DynInputMatcher {
    DynInputMatcher {
        dyn_matching_fn: None,
        matcher_debug: line.map(|line| debug::InputMatcherDebug { pat_debug: "", file: "f.rs", line }),
    }
}

pub(crate) fn mk_pattern_with(m: DynInputMatcher, counter: counter::CallCounter) -> CallPattern {
    CallPattern { input_matcher: m, responders: Vec::new(), ordered_call_index_range: 0..0, call_counter: counter }
}
