//@module src/teardown.rs
//@needs counter_h call_pattern_h fn_mocker_h
// Tier K harness module, child of src/teardown.rs: twins of the lifecycle Verus unit that EXECUTE the real teardown on a real
// (empty) mock.  no_std + spin-lock feature set (SharedState::new reaches std::thread::current() with `std`: Kani ICE), so the
// "already unwinding" guard is the no_std one (the per-instance `panicked` flag); the std guard (thread::panicking) and the
// creator-thread check are only in the Verus unit.  The method table is empty here: the counting verdict is FnMocker::verify's
// own contract (fn_mocker_h.rs / lifecycle unit).
use super::*;
#[allow(unused_imports)]
use crate::alloc::{vec, String, Vec};
#[allow(unused_imports)]
use crate::{error::MockError, fn_mocker::__verif_fn_mocker_h as fh, Unimock};

fn record(u: &Unimock, n: u8) {
    let mut i = 0;
    while i < n {
        u.shared_state
            .panic_reasons
            .locked(|reasons| reasons.push(MockError::NotAnswered { info: fh::info_a() }));
        i += 1;
    }
}

/// teardown on a CLONE (C09, C11, C08): never judges - Ok(()) whatever was recorded, whatever flags are set, while other
/// handles are alive - and marks (only) that instance torn down.
//@K props=C09,C11,C08 tier=quick label=bnd feat=nostd fn=teardown[clone] bound=recorded_errors<=1
#[kani::proof]
#[kani::unwind(4)]
fn teardown_clone_never_judges() {
    let a = Unimock::new(());
    let n: u8 = kani::any();
    kani::assume(n <= 1);
    record(&a, n);
    let mut c = a.clone();
    c.verify_in_drop = kani::any();
    if kani::any() {
        c.panicked.locked(|p| *p = true);
    }
    let r = teardown(&mut c);
    assert!(r.is_ok());
    assert!(c.torn_down && !c.original_instance);
    assert!(!a.torn_down);
    kani::cover!(n == 1);
    core::mem::forget(c);
    core::mem::forget(a);
}

// NOT COVERED here (measured 2026-09-27): every harness that runs teardown on the ORIGINAL - flagged `panicked` (returns before the
// count check), live clone (must panic), nothing recorded (clean verdict over an empty method table) - exceeds 400-600 s of CBMC
// time; those statements are the lifecycle Verus unit's (V:lifecycle::teardown).  Only the clone path is within reach.
