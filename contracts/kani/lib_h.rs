//@module src/lib.rs
// Tier K harness module, child of the crate root (no_std + spin-lock feature set: SharedState::new, see state_h.rs).
use super::*;
#[allow(unused_imports)]
use crate::{error, MockFn, MockFnInfo, Unimock};
#[allow(unused_imports)]
use crate::alloc::{vec, String, Vec};
use crate::private::{Continuation, Eval};

pub(crate) struct G8;
impl MockFn for G8 {
    type Inputs<'i> = (u8, i8);
    type OutputKind = crate::output::Owning<u8>;
    type AnswerFn = dyn Fn(&Unimock, u8, i8) -> u8 + Send + Sync;
    fn info() -> MockFnInfo {
        MockFnInfo::new::<Self>()
    }
}
pub(crate) struct GDefault;
impl MockFn for GDefault {
    type Inputs<'i> = (u8, i8);
    type OutputKind = crate::output::Owning<u8>;
    type AnswerFn = dyn Fn(&Unimock, u8, i8) -> u8 + Send + Sync;
    fn info() -> MockFnInfo {
        MockFnInfo::new::<Self>().default_impl()
    }
}

/// Clone for Unimock (C18, C09): the clone holds THE SAME Arc'd shared state (pointer-equal), is not the original, is not torn
/// down and inherits verify_in_drop; two mocks built independently share nothing.
//@K props=C18,C09 tier=quick label=full feat=nostd fn=<UnimockasClone>::clone,Unimock::from_assembler
#[kani::proof]
#[kani::unwind(4)]
fn clone_shares_state_new_does_not() {
    let partial: bool = kani::any();
    let mut a = if partial { Unimock::new_partial(()) } else { Unimock::new(()) };
    assert!(a.original_instance && !a.torn_down && a.verify_in_drop);
    a.verify_in_drop = kani::any();
    let c = a.clone();
    assert!(alloc::Arc::ptr_eq(&a.shared_state, &c.shared_state));
    assert!(alloc::Arc::strong_count(&a.shared_state) == 2);
    assert!(!c.original_instance && !c.torn_down && c.verify_in_drop == a.verify_in_drop);
    let cc = c.clone(); // clone of a clone
    assert!(alloc::Arc::ptr_eq(&a.shared_state, &cc.shared_state));
    assert!(!cc.original_instance);
    let b = Unimock::new(());
    assert!(!alloc::Arc::ptr_eq(&a.shared_state, &b.shared_state));
    assert!(alloc::Arc::strong_count(&b.shared_state) == 1);
    assert!(matches!(a.shared_state.fallback_mode, FallbackMode::Unmock) == partial);
    kani::cover!(partial);
    kani::cover!(!partial);
    core::mem::forget(a);
    core::mem::forget(b);
    core::mem::forget(c);
    core::mem::forget(cc);
}

// NOT COVERED (measured 2026-09-27): eval::eval's continuation mapping (Unmock / CallDefaultImpl / Err handed to the generated
// code with the inputs unchanged).  Harnesses calling the generic eval::eval::<F> on an empty mock ran > 900 s with
// Unimock::new(()) and ran out of memory (62 GB) with a struct-literal mock; removed.  The decision itself is under contract
// in eval_h.rs (eval_dyn_unmentioned, eval_dyn_mentioned_*).

/// Unimock::from_assembler (C14): an assembly error makes construction panic immediately (not at call time).
//@K props=C14 tier=quick label=full feat=nostd fn=Unimock::from_assembler[Err]
#[kani::proof]
#[kani::should_panic]
#[kani::unwind(4)]
fn from_assembler_err_panics() {
    let mode = if kani::any() { FallbackMode::Error } else { FallbackMode::Unmock };
    kani::cover!(true);
    let u = Unimock::from_assembler(Err(String::new()), mode);
    // not reached: construction must not hand out an instance
    core::mem::forget(u);
}

/// eval::eval on a Return responder (C02, C12; one-entry method table, one pattern accepting every call, a single-use value):
/// the first call yields Eval::Return(v); the second yields Err(CannotReturnValueMoreThanOnce) - never a fabricated value -
/// and both calls are counted.
//@K props=C02,C12 tier=thorough label=full feat=nostd fn=eval::eval[Return-responder,single-use] timeout=3000
#[kani::proof]
#[kani::unwind(6)]
fn eval_single_use_value_then_error() {
    use crate::output::IntoReturnOnce;
    use crate::responder::IntoReturner;
    let v: u8 = kani::any();
    let mut b = crate::build::dyn_builder::DynCallPatternBuilder::new(
        fn_mocker::PatternMatchMode::InAnyOrder,
        call_pattern::DynInputMatcher::from_matching_fn::<G8>(&|m| m.func(|_, _| true)),
    );
    b.responders.reserve(1);
    b.responders.push(call_pattern::DynCallOrderResponder {
        response_index: 0,
        responder: IntoReturner::<G8>::into_returner(<u8 as IntoReturnOnce<crate::output::Owning<u8>>>::into_return_once(v).ok().unwrap()).into_dyn_responder(),
    });
    let pattern = call_pattern::CallPattern {
        input_matcher: b.input_matcher,
        responders: b.responders,
        ordered_call_index_range: 0..0,
        call_counter: counter::CallCountExpectation::default().into_counter(),
    };
    let mut patterns = Vec::with_capacity(1);
    patterns.push(pattern);
    let mut map = alloc::BTreeMap::new();
    map.insert(
        G8::info().type_id,
        fn_mocker::FnMocker { info: G8::info(), pattern_match_mode: fn_mocker::PatternMatchMode::InAnyOrder, call_patterns: patterns },
    );
    let u = Unimock {
        shared_state: alloc::Arc::new(state::SharedState::new(map, FallbackMode::Error)),
        value_chain: Default::default(),
        default_impl_delegator_cell: Default::default(),
        original_instance: true,
        torn_down: false,
        verify_in_drop: true,
        panicked: private::MutexIsh::new(false),
    };
    match crate::eval::eval::<G8>(&u, (kani::any(), kani::any())) {
        Ok(Eval::Return(out)) => assert!(out == v),
        _ => assert!(false),
    }
    match crate::eval::eval::<G8>(&u, (kani::any(), kani::any())) {
        Err(error::MockError::CannotReturnValueMoreThanOnce { .. }) => {}
        _ => assert!(false),
    }
    kani::cover!(true);
    core::mem::forget(u);
}
