//@module src/lib.rs
// Tier K harness module, child of the crate root (no_std + spin-lock feature set: SharedState::new, see state_h.rs).
use super::*;
#[allow(unused_imports)]
use crate::{error, MockFn, MockFnInfo, Unimock};
#[allow(unused_imports)]
use crate::alloc::{vec, String, Vec};
use crate::private::{Continuation, Eval};

pub(crate) struct G8;
impl MockFn for G8 {
    type Inputs<'i> = (u8, i8);
    type OutputKind = crate::output::Owning<u8>;
    type AnswerFn = dyn Fn(&Unimock, u8, i8) -> u8 + Send + Sync;
    fn info() -> MockFnInfo {
        MockFnInfo::new::<Self>()
    }
}
pub(crate) struct GDefault;
impl MockFn for GDefault {
    type Inputs<'i> = (u8, i8);
    type OutputKind = crate::output::Owning<u8>;
    type AnswerFn = dyn Fn(&Unimock, u8, i8) -> u8 + Send + Sync;
    fn info() -> MockFnInfo {
        MockFnInfo::new::<Self>().default_impl()
    }
}

/// Clone for Unimock (C18, C09): the clone holds THE SAME Arc'd shared state (pointer-equal), is not the original, is not torn
/// down and inherits verify_in_drop; two mocks built independently share nothing.
//@K props=C18,C09 tier=quick label=full feat=nostd fn=<UnimockasClone>::clone,Unimock::from_assembler
#[kani::proof]
#[kani::unwind(4)]
fn clone_shares_state_new_does_not() {
    let partial: bool = kani::any();
    let mut a = if partial { Unimock::new_partial(()) } else { Unimock::new(()) };
    assert!(a.original_instance && !a.torn_down && a.verify_in_drop);
    a.verify_in_drop = kani::any();
    let c = a.clone();
    assert!(alloc::Arc::ptr_eq(&a.shared_state, &c.shared_state));
    assert!(alloc::Arc::strong_count(&a.shared_state) == 2);
    assert!(!c.original_instance && !c.torn_down && c.verify_in_drop == a.verify_in_drop);
    let cc = c.clone(); // clone of a clone
    assert!(alloc::Arc::ptr_eq(&a.shared_state, &cc.shared_state));
    assert!(!cc.original_instance);
    let b = Unimock::new(());
    assert!(!alloc::Arc::ptr_eq(&a.shared_state, &b.shared_state));
    assert!(alloc::Arc::strong_count(&b.shared_state) == 1);
    assert!(matches!(a.shared_state.fallback_mode, FallbackMode::Unmock) == partial);
    kani::cover!(partial);
    kani::cover!(!partial);
    core::mem::forget(a);
    core::mem::forget(b);
    core::mem::forget(c);
    core::mem::forget(cc);
}

pub(crate) struct Gen<T>(core::marker::PhantomData<T>);
impl<T: 'static> MockFn for Gen<T> {
    type Inputs<'i> = (u8, i8);
    type OutputKind = crate::output::Owning<u8>;
    type AnswerFn = dyn Fn(&Unimock, u8, i8) -> u8 + Send + Sync;
    fn info() -> MockFnInfo {
        MockFnInfo::new::<Self>()
    }
}

/// MockFnInfo (C07, C18): a method's identity is the TypeId of its MockFn type - distinct for distinct types, also for two
/// instantiations of one generic MockFn - and the two flags that drive the fall-through precedence are exactly what the builder
/// calls say: `new` sets none, `default_impl()` sets only has_default_impl, `path()` touches neither.
//@K props=C07,C18 tier=quick label=full feat=nostd fn=MockFnInfo::new,MockFnInfo::default_impl,MockFnInfo::path
#[kani::proof]
#[kani::unwind(3)]
fn mock_fn_info_identity_and_flags() {
    use core::any::TypeId;
    let a = MockFnInfo::new::<G8>();
    let b = GDefault::info();
    assert!(a.type_id == TypeId::of::<G8>() && b.type_id == TypeId::of::<GDefault>());
    assert!(a.type_id != b.type_id);
    assert!(!a.has_default_impl && !a.partial_by_default);
    assert!(b.has_default_impl && !b.partial_by_default);
    let d = a.default_impl();
    assert!(d.has_default_impl && !d.partial_by_default && d.type_id == a.type_id);
    let p = a.path(&["Trait", "method"]);
    assert!(!p.has_default_impl && !p.partial_by_default && p.type_id == a.type_id);
    let g1 = Gen::<u8>::info();
    let g2 = Gen::<i8>::info();
    assert!(g1.type_id != g2.type_id && g1.type_id == TypeId::of::<Gen<u8>>());
    kani::cover!(true);
}

// NOT COVERED (measured 2026-09-27): eval::eval's continuation mapping (Unmock / CallDefaultImpl / Err handed to the generated
// code with the inputs unchanged).  Harnesses calling the generic eval::eval::<F> on an empty mock ran > 900 s with
// Unimock::new(()) and ran out of memory (62 GB) with a struct-literal mock; removed.  The decision itself is under contract
// in eval_h.rs (eval_dyn_unmentioned, eval_dyn_mentioned_*).

/// Unimock::from_assembler (C14): an assembly error makes construction panic immediately (not at call time).
//@K props=C14 tier=quick label=full feat=nostd fn=Unimock::from_assembler[Err]
#[kani::proof]
#[kani::should_panic]
#[kani::unwind(4)]
fn from_assembler_err_panics() {
    let mode = if kani::any() { FallbackMode::Error } else { FallbackMode::Unmock };
    kani::cover!(true);
    let u = Unimock::from_assembler(Err(String::new()), mode);
    // not reached: construction must not hand out an instance
    core::mem::forget(u);
}

// NOT COVERED (measured 2026-09-27, 35 min then out of memory): eval::eval on a Return responder whose single-use value is
// exhausted (second request -> Err(CannotReturnValueMoreThanOnce), never a fabricated value).  The two halves are under
// contract separately: Owned::output yields None after the first request (output_h.rs), next_responder selects the responder
// (chain.rs.tmpl); the 6-line match in eval::eval that maps None to the error is not.
