//@module src/lib.rs
// Tier K harness module, child of the crate root (no_std + spin-lock feature set: SharedState::new, see state_h.rs).
use super::*;
#[allow(unused_imports)]
use crate::{error, MockFn, MockFnInfo, Unimock};
#[allow(unused_imports)]
use crate::alloc::{vec, String, Vec};
use crate::private::{Continuation, Eval};

pub(crate) struct G8;
impl MockFn for G8 {
    type Inputs<'i> = (u8, i8);
    type OutputKind = crate::output::Owning<u8>;
    type AnswerFn = dyn Fn(&Unimock, u8, i8) -> u8 + Send + Sync;
    fn info() -> MockFnInfo {
        MockFnInfo::new::<Self>()
    }
}
pub(crate) struct GDefault;
impl MockFn for GDefault {
    type Inputs<'i> = (u8, i8);
    type OutputKind = crate::output::Owning<u8>;
    type AnswerFn = dyn Fn(&Unimock, u8, i8) -> u8 + Send + Sync;
    fn info() -> MockFnInfo {
        MockFnInfo::new::<Self>().default_impl()
    }
}

/// Clone for Unimock (C18, C09): the clone holds THE SAME Arc'd shared state (pointer-equal), is not the original, is not torn
/// down and inherits verify_in_drop; two mocks built independently share nothing.
//@K props=C18,C09 tier=quick label=full feat=nostd fn=<UnimockasClone>::clone,Unimock::from_assembler
#[kani::proof]
#[kani::unwind(4)]
fn clone_shares_state_new_does_not() {
    let partial: bool = kani::any();
    let mut a = if partial { Unimock::new_partial(()) } else { Unimock::new(()) };
    assert!(a.original_instance && !a.torn_down && a.verify_in_drop);
    a.verify_in_drop = kani::any();
    let c = a.clone();
    assert!(alloc::Arc::ptr_eq(&a.shared_state, &c.shared_state));
    assert!(alloc::Arc::strong_count(&a.shared_state) == 2);
    assert!(!c.original_instance && !c.torn_down && c.verify_in_drop == a.verify_in_drop);
    let cc = c.clone(); // clone of a clone
    assert!(alloc::Arc::ptr_eq(&a.shared_state, &cc.shared_state));
    assert!(!cc.original_instance);
    let b = Unimock::new(());
    assert!(!alloc::Arc::ptr_eq(&a.shared_state, &b.shared_state));
    assert!(alloc::Arc::strong_count(&b.shared_state) == 1);
    assert!(matches!(a.shared_state.fallback_mode, FallbackMode::Unmock) == partial);
    kani::cover!(partial);
    kani::cover!(!partial);
    core::mem::forget(a);
    core::mem::forget(b);
    core::mem::forget(c);
    core::mem::forget(cc);
}

/// eval::eval continuation mapping for unmentioned methods (C07): the decision of eval_dyn is handed to the generated code as
/// Continue(Unmock | CallDefaultImpl, inputs) with the caller's inputs UNCHANGED, or as Err(NoMockImplementation); a value
/// (Eval::Return) is never fabricated.
//@K props=C07 tier=quick label=full feat=nostd fn=eval::eval[unmentioned]
#[kani::proof]
#[kani::unwind(4)]
fn eval_continuation_mapping() {
    let partial: bool = kani::any();
    let u = if partial { Unimock::new_partial(()) } else { Unimock::new(()) };
    let x: u8 = kani::any();
    let y: i8 = kani::any();
    match crate::eval::eval::<G8>(&u, (x, y)) {
        Ok(Eval::Continue(Continuation::Unmock, inputs)) => {
            assert!(partial);
            assert!(inputs == (x, y));
        }
        Err(error::MockError::NoMockImplementation { .. }) => assert!(!partial),
        _ => assert!(false),
    }
    match crate::eval::eval::<GDefault>(&u, (x, y)) {
        Ok(Eval::Continue(Continuation::CallDefaultImpl, inputs)) => assert!(inputs == (x, y)),
        _ => assert!(false),
    }
    kani::cover!(partial);
    kani::cover!(!partial);
    core::mem::forget(u);
}
