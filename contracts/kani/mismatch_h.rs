//@module src/mismatch.rs
// Tier K harness module, child of src/mismatch.rs (C19 runtime half: what the reporter recorded is what
// the Mismatches value holds).  Vec sizes are fixed per harness; the unbounded statement is the Verus
// unit contracts/verus/mismatch.rs.tmpl, these harnesses execute the real std conversions Verus assumes.
use super::*;
#[allow(unused_imports)]
use crate::alloc::{vec, String, Vec};

fn kind_code(k: MismatchKind) -> u8 {
    match k {
        MismatchKind::Pattern => 0,
        MismatchKind::Eq => 1,
        MismatchKind::Ne => 2,
    }
}

fn any_kind() -> MismatchKind {
    let c: u8 = kani::any();
    kani::assume(c < 3);
    match c {
        0 => MismatchKind::Pattern,
        1 => MismatchKind::Eq,
        _ => MismatchKind::Ne,
    }
}

/// MismatchesBuilder::build: every collected entry survives, in order, also when entries are equal
/// (same pattern, same input, same kind, same rendering).
//@K props=C19 tier=quick label=bnd feat=nostd fn=MismatchesBuilder::build bound=entries=2
#[kani::proof]
#[kani::unwind(4)]
fn build_keeps_every_entry() {
    let (p0, p1): (usize, usize) = (kani::any(), kani::any());
    let (a0, a1): (usize, usize) = (kani::any(), kani::any());
    let (k0, k1) = (any_kind(), any_kind());
    let b = MismatchesBuilder {
        mismatches: vec![
            (PatIndex(p0), InputIndex(a0), Mismatch { kind: k0, actual: None, expected: None }),
            (PatIndex(p1), InputIndex(a1), Mismatch { kind: k1, actual: None, expected: None }),
        ],
    };
    let m = b.build();
    assert!(m.mismatches.len() == 2);
    assert!(m.mismatches[0].0 .0 == p0 && m.mismatches[0].1 .0 == a0);
    assert!(m.mismatches[1].0 .0 == p1 && m.mismatches[1].1 .0 == a1);
    assert!(kind_code(m.mismatches[0].2.kind) == kind_code(k0));
    assert!(kind_code(m.mismatches[1].2.kind) == kind_code(k1));
    kani::cover!(p0 == p1 && a0 == a1 && kind_code(k0) == kind_code(k1));
    core::mem::forget(m);
}

/// pat/eq/ne_fail keep `actual` in `actual` and `expected` in `expected` (one-byte renderings).
//@K props=C19 tier=quick label=bnd feat=nostd fn=MismatchReporter::ne_fail bound=renderings=1byte
#[kani::proof]
#[kani::unwind(4)]
fn fail_records_actual_and_expected_unswapped() {
    let k = any_kind();
    let mut rep = MismatchReporter::new_enabled();
    match k {
        MismatchKind::Pattern => rep.pat_fail(0, Some("a"), Some("e")),
        MismatchKind::Eq => rep.eq_fail(0, Some("a"), Some("e")),
        MismatchKind::Ne => rep.ne_fail(0, Some("a"), Some("e")),
    }
    let mut b = Mismatches::builder();
    b.collect_from_reporter(PatIndex(0), rep);
    let m = b.build();
    assert!(m.mismatches.len() == 1);
    let mm = &m.mismatches[0].2;
    assert!(kind_code(mm.kind) == kind_code(k));
    assert!(mm.actual.as_ref().unwrap().as_bytes()[0] == b'a');
    assert!(mm.expected.as_ref().unwrap().as_bytes()[0] == b'e');
    kani::cover!(true);
    core::mem::forget(m);
}
