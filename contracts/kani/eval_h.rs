//@module src/eval.rs
//@needs counter_h call_pattern_h fn_mocker_h state_h
// Tier K harness module, child of src/eval.rs (no_std + spin-lock feature set: see state_h.rs).
use super::*;
#[allow(unused_imports)]
use crate::{call_pattern::{CallPattern, PatIndex, PatternError, PatternResult}, error::{MockError, MockResult}, fn_mocker::{FnMocker, PatternMatchMode}, private::MismatchReporter, state::SharedState, FallbackMode, MockFnInfo};
#[allow(unused_imports)]
use crate::alloc::Box;
#[allow(unused_imports)]
use crate::alloc::{vec, String, Vec};
use crate::call_pattern::__verif_call_pattern_h as ph;
use crate::counter::__verif_counter_h as ch;
use crate::fn_mocker::__verif_fn_mocker_h as fh;
use crate::state::__verif_state_h as sh;
use core::cell::Cell;

fn no_inputs() -> Box<[Option<String>]> {
    Box::new([])
}

/// verdict code of a matcher on the current call: 0 = Ok(false), 1 = Ok(true), 2 = Err(NoMatcherFunction), 3 = Err(Downcast)
fn verdict_result(v: u8) -> PatternResult<bool> {
    match v {
        0 => Ok(false),
        1 => Ok(true),
        2 => Err(PatternError::NoMatcherFunction),
        _ => Err(PatternError::Downcast),
    }
}

macro_rules! mcp_anyorder {
    ($name:ident, $n:expr) => {
        /// DynCtx::match_call_pattern, InAnyOrder arm (C01, K-bnd in the number of patterns).
        /// Per-pattern verdicts, per-pattern counters and the global ordered index are symbolic.
        /// ensures: the answer is the LEAST index whose verdict is not Ok(false): Ok(true) -> Some((i, &patterns[i])),
        ///          Err -> the mapped error; all reject -> None.  The matcher is consulted with diagnostics disabled.
        /// frame:   no counter and not the global ordered index is modified ("never counted as matched").
        #[kani::proof]
        #[kani::unwind(8)]
        fn $name() {
            const N: usize = $n;
            let mut verdict = [0u8; N];
            let mut counts = [0usize; N];
            let mut patterns: Vec<CallPattern> = Vec::with_capacity(N);
            let mut i = 0;
            while i < N {
                verdict[i] = kani::any();
                kani::assume(verdict[i] < 4);
                counts[i] = kani::any();
                patterns.push(ph::mk_pattern(0, 0, ch::mk_counter(counts[i], kani::any(), ch::any_exactness().1), Vec::new()));
                i += 1;
            }
            let fm = fh::mk_fn_mocker(PatternMatchMode::InAnyOrder, patterns);
            let state = sh::empty_state(if kani::any() { FallbackMode::Error } else { FallbackMode::Unmock });
            let g: usize = kani::any();
            sh::set_ordered_index(&state, g);
            let ctx = DynCtx { info: fh::info_a(), shared_state: &state, input_debugger: &no_inputs };
            let diag_on = Cell::new(false);
            let matcher = |p: &CallPattern, rep: Option<&mut MismatchReporter>| -> PatternResult<bool> {
                if rep.is_some() {
                    diag_on.set(true);
                }
                let mut k = 0;
                while k < N {
                    if core::ptr::eq(p, &fm.call_patterns[k]) {
                        return verdict_result(verdict[k]);
                    }
                    k += 1;
                }
                // a pattern that is not one of this method's patterns must never be consulted
                assert!(false);
                Ok(false)
            };
            let r = ctx.match_call_pattern(&fm, &matcher);
            // oracle: earliest-declared pattern whose matcher does not reject
            let mut first: Option<usize> = None;
            let mut j = N;
            while j > 0 {
                j -= 1;
                if verdict[j] != 0 {
                    first = Some(j);
                }
            }
            match first {
                None => assert!(matches!(r, Ok(None))),
                Some(f) => match verdict[f] {
                    1 => match r {
                        Ok(Some((pi, p))) => {
                            assert!(pi.0 == f);
                            assert!(core::ptr::eq(p, &fm.call_patterns[f]));
                        }
                        _ => assert!(false),
                    },
                    2 => assert!(r.is_err()),
                    _ => assert!(r.is_err()),
                },
            }
            assert!(!diag_on.get());
            // frame
            let mut k = 0;
            while k < N {
                assert!(ch::peek(&fm.call_patterns[k].call_counter) == counts[k]);
                k += 1;
            }
            assert!(sh::peek_ordered_index(&state) == g);
            kani::cover!(N == 0 || first.is_some());
            kani::cover!(first.is_none());
            core::mem::forget(r);
            core::mem::forget(fm);
            core::mem::forget(state);
        }
    };
}

//@K props=C01,C18 tier=quick label=bnd feat=nostd fn=DynCtx::match_call_pattern[InAnyOrder] bound=patterns=0
mcp_anyorder!(mcp_anyorder_n0, 0);
//@K props=C01,C18 tier=quick label=bnd feat=nostd fn=DynCtx::match_call_pattern[InAnyOrder] bound=patterns=1
mcp_anyorder!(mcp_anyorder_n1, 1);
//@K props=C01,C18 tier=quick label=bnd feat=nostd fn=DynCtx::match_call_pattern[InAnyOrder] bound=patterns=2
mcp_anyorder!(mcp_anyorder_n2, 2);
//@K props=C01,C18 tier=quick label=bnd feat=nostd fn=DynCtx::match_call_pattern[InAnyOrder] bound=patterns=3
mcp_anyorder!(mcp_anyorder_n3, 3);
//@K props=C01 tier=thorough label=bnd feat=nostd fn=DynCtx::match_call_pattern[InAnyOrder] bound=patterns=4 timeout=1200
mcp_anyorder!(mcp_anyorder_n4, 4);
//@K props=C01 tier=thorough label=bnd feat=nostd fn=DynCtx::match_call_pattern[InAnyOrder] bound=patterns=5 timeout=1800
mcp_anyorder!(mcp_anyorder_n5, 5);

macro_rules! mcp_inorder {
    ($name:ident, $n:expr) => {
        /// DynCtx::match_call_pattern, InOrder arm (C04, K-bnd in the number of patterns of the called method).
        /// Ranges, the global index g, verdicts and counters are symbolic.
        /// ensures: the global index is bumped by exactly one; the owner of slot g within THIS method (first pattern whose
        ///          half-open range contains g) is the only pattern consulted, with diagnostics enabled;
        ///          owner accepts -> Some((owner, &patterns[owner])); owner rejects -> Err(InputsNotMatchedInCallOrder);
        ///          no owner in this method (wrong method / past the end) -> Err(CallOrderNotMatchedForMockFn).
        /// frame:   no counter is modified.
        #[kani::proof]
        #[kani::unwind(8)]
        fn $name() {
            const N: usize = $n;
            let mut verdict = [0u8; N];
            let mut counts = [0usize; N];
            let mut start = [0usize; N];
            let mut end = [0usize; N];
            let mut patterns: Vec<CallPattern> = Vec::with_capacity(N);
            let mut i = 0;
            while i < N {
                verdict[i] = kani::any();
                kani::assume(verdict[i] < 4);
                counts[i] = kani::any();
                start[i] = kani::any();
                end[i] = kani::any();
                patterns.push(ph::mk_pattern(start[i], end[i], ch::mk_counter(counts[i], kani::any(), 0), Vec::new()));
                i += 1;
            }
            let fm = fh::mk_fn_mocker(PatternMatchMode::InOrder, patterns);
            let state = sh::empty_state(if kani::any() { FallbackMode::Error } else { FallbackMode::Unmock });
            let g: usize = kani::any();
            kani::assume(g < usize::MAX);
            sh::set_ordered_index(&state, g);
            let ctx = DynCtx { info: fh::info_a(), shared_state: &state, input_debugger: &no_inputs };
            let consulted: Cell<Option<usize>> = Cell::new(None);
            let n_consulted = Cell::new(0u8);
            let diag_on = Cell::new(true);
            let matcher = |p: &CallPattern, rep: Option<&mut MismatchReporter>| -> PatternResult<bool> {
                match rep {
                    Some(r) => {
                        if !r.enabled() {
                            diag_on.set(false);
                        }
                    }
                    None => diag_on.set(false),
                }
                n_consulted.set(n_consulted.get() + 1);
                let mut k = 0;
                while k < N {
                    if core::ptr::eq(p, &fm.call_patterns[k]) {
                        consulted.set(Some(k));
                        return verdict_result(verdict[k]);
                    }
                    k += 1;
                }
                assert!(false);
                Ok(false)
            };
            let r = ctx.match_call_pattern(&fm, &matcher);
            let mut owner: Option<usize> = None;
            let mut j = N;
            while j > 0 {
                j -= 1;
                if start[j] <= g && g < end[j] {
                    owner = Some(j);
                }
            }
            assert!(sh::peek_ordered_index(&state) == g + 1);
            match owner {
                None => {
                    assert!(r.is_err());
                    assert!(n_consulted.get() == 0);
                }
                Some(o) => {
                    assert!(n_consulted.get() == 1);
                    assert!(consulted.get() == Some(o));
                    assert!(diag_on.get());
                    match verdict[o] {
                        0 => assert!(r.is_err()),
                        1 => match r {
                            Ok(Some((pi, p))) => {
                                assert!(pi.0 == o);
                                assert!(core::ptr::eq(p, &fm.call_patterns[o]));
                            }
                            _ => assert!(false),
                        },
                        2 => assert!(r.is_err()),
                        _ => assert!(r.is_err()),
                    }
                }
            }
            let mut k = 0;
            while k < N {
                assert!(ch::peek(&fm.call_patterns[k].call_counter) == counts[k]);
                k += 1;
            }
            kani::cover!(N == 0 || owner.is_some());
            kani::cover!(owner.is_none());
            core::mem::forget(r);
            core::mem::forget(fm);
            core::mem::forget(state);
        }
    };
}

//@K props=C04,C07 tier=quick label=bnd feat=nostd fn=DynCtx::match_call_pattern[InOrder] bound=patterns=0
mcp_inorder!(mcp_inorder_n0, 0);
//@K props=C04,C07 tier=quick label=bnd feat=nostd fn=DynCtx::match_call_pattern[InOrder] bound=patterns=1
mcp_inorder!(mcp_inorder_n1, 1);
//@K props=C04,C07 tier=quick label=bnd feat=nostd fn=DynCtx::match_call_pattern[InOrder] bound=patterns=2
mcp_inorder!(mcp_inorder_n2, 2);
//@K props=C04,C07 tier=thorough label=bnd feat=nostd fn=DynCtx::match_call_pattern[InOrder] bound=patterns=3 timeout=1200
mcp_inorder!(mcp_inorder_n3, 3);

fn any_info() -> MockFnInfo {
    let mut info = fh::info_a();
    info.has_default_impl = kani::any();
    info.partial_by_default = kani::any();
    info
}

/// DynCtx::eval_dyn for a method NO clause mentions (C07; empty method table, loop-free => complete over all
/// (has_default_impl, partial_by_default, fallback mode)): precedence default body > partial-by-default > fallback mode
/// (strict: Err(NoMockImplementation), partial: Unmock).  The matcher is never consulted, nothing is counted.
//@K props=C07 tier=quick label=full feat=nostd fn=DynCtx::eval_dyn[unmentioned]
#[kani::proof]
#[kani::unwind(4)]
fn eval_dyn_unmentioned() {
    let strict: bool = kani::any();
    let state = sh::empty_state(if strict { FallbackMode::Error } else { FallbackMode::Unmock });
    let g: usize = kani::any();
    sh::set_ordered_index(&state, g);
    let info = any_info();
    let ctx = DynCtx { info, shared_state: &state, input_debugger: &no_inputs };
    let matcher = |_p: &CallPattern, _rep: Option<&mut MismatchReporter>| -> PatternResult<bool> {
        assert!(false); // nothing to consult
        Ok(true)
    };
    let r = ctx.eval_dyn(&matcher);
    if info.has_default_impl {
        assert!(matches!(r, Ok(EvalResult::CallDefaultImpl)));
    } else if info.partial_by_default {
        assert!(matches!(r, Ok(EvalResult::Unmock)));
    } else if strict {
        assert!(r.is_err());
    } else {
        assert!(matches!(r, Ok(EvalResult::Unmock)));
    }
    assert!(sh::peek_ordered_index(&state) == g);
    kani::cover!(info.has_default_impl && info.partial_by_default);
    kani::cover!(!info.has_default_impl && !info.partial_by_default && strict);
    core::mem::forget(r);
    core::mem::forget(state);
}

macro_rules! eval_dyn_mentioned {
    ($name:ident, $n:expr) => {
        /// DynCtx::eval_dyn for a MENTIONED unordered method (C01, C07; K-bnd in the number of patterns; one-entry method table).
        /// ensures: first non-rejecting pattern f accepts -> its responder for the PRE-increment count is selected and exactly
        ///          counter[f] is +1, all others unchanged; all reject -> strict: Err(NoMatchingCallPatterns), partial: Unmock -
        ///          whatever has_default_impl / partial_by_default say - and NO counter changes; the global ordered index never moves.
        #[kani::proof]
        #[kani::unwind(8)]
        fn $name() {
            const N: usize = $n;
            let mut verdict = [0u8; N];
            let mut counts = [0usize; N];
            let mut patterns: Vec<CallPattern> = Vec::with_capacity(N);
            let mut i = 0;
            while i < N {
                verdict[i] = kani::any();
                kani::assume(verdict[i] < 2); // accept / reject (matcher errors: see mcp_anyorder_*)
                counts[i] = kani::any();
                kani::assume(counts[i] < usize::MAX);
                let mut responders = Vec::with_capacity(1);
                responders.push(crate::call_pattern::DynCallOrderResponder { response_index: 0, responder: ph::tag_responder(i as u8) });
                patterns.push(ph::mk_pattern(0, 0, ch::mk_counter(counts[i], kani::any(), ch::any_exactness().1), responders));
                i += 1;
            }
            let fm = fh::mk_fn_mocker(PatternMatchMode::InAnyOrder, patterns);
            let strict: bool = kani::any();
            let mut map = crate::alloc::BTreeMap::new();
            map.insert(fh::info_a().type_id, fm);
            let state = SharedState::new(map, if strict { FallbackMode::Error } else { FallbackMode::Unmock });
            let g: usize = kani::any();
            sh::set_ordered_index(&state, g);
            let fm = state.fn_mockers.first_key_value().unwrap().1;
            let info = any_info();
            let ctx = DynCtx { info, shared_state: &state, input_debugger: &no_inputs };
            let matcher = |p: &CallPattern, _rep: Option<&mut MismatchReporter>| -> PatternResult<bool> {
                let mut k = 0;
                while k < N {
                    if core::ptr::eq(p, &fm.call_patterns[k]) {
                        return verdict_result(verdict[k]);
                    }
                    k += 1;
                }
                assert!(false);
                Ok(false)
            };
            let r = ctx.eval_dyn(&matcher);
            let mut first: Option<usize> = None;
            let mut j = N;
            while j > 0 {
                j -= 1;
                if verdict[j] == 1 {
                    first = Some(j);
                }
            }
            match first {
                None => {
                    if strict {
                        assert!(r.is_err());
                    } else {
                        assert!(matches!(r, Ok(EvalResult::Unmock)));
                    }
                }
                Some(f) => match &r {
                    Ok(EvalResult::Responder(er)) => {
                        assert!(er.pat_index.0 == f);
                        assert!(core::ptr::eq(er.dyn_responder, &fm.call_patterns[f].responders[0].responder));
                    }
                    _ => assert!(false),
                },
            }
            let mut k = 0;
            while k < N {
                let expect = if first == Some(k) { counts[k] + 1 } else { counts[k] };
                assert!(ch::peek(&fm.call_patterns[k].call_counter) == expect);
                k += 1;
            }
            assert!(sh::peek_ordered_index(&state) == g);
            kani::cover!(first.is_none() && strict);
            kani::cover!(first.is_none() && !strict && info.has_default_impl);
            kani::cover!(N == 0 || first.is_some());
            core::mem::forget(r);
            core::mem::forget(state);
        }
    };
}

//@K props=C01,C07 tier=thorough label=bnd feat=nostd fn=DynCtx::eval_dyn[mentioned,InAnyOrder] bound=patterns=1 timeout=1800
eval_dyn_mentioned!(eval_dyn_mentioned_n1, 1);
//@K props=C01,C07 tier=thorough label=bnd feat=nostd fn=DynCtx::eval_dyn[mentioned,InAnyOrder] bound=patterns=2 timeout=1800
eval_dyn_mentioned!(eval_dyn_mentioned_n2, 2);
