//@module src/assemble.rs
//@needs counter_h call_pattern_h
// Tier K harness module, child of src/assemble.rs.
use super::*;
#[allow(unused_imports)]
use crate::{build::dyn_builder::DynCallPatternBuilder, call_pattern::CallPattern, fn_mocker::{FnMocker, PatternMatchMode}, output::OutputError, MockFnInfo};
#[allow(unused_imports)]
use core::any::TypeId;
#[allow(unused_imports)]
use crate::alloc::{vec, String, Vec};
use crate::call_pattern::__verif_call_pattern_h as ph;
use crate::call_pattern::DynCallOrderResponder;
use crate::clause::term::Sink;
use crate::counter::__verif_counter_h as ch;
use crate::counter::CallCountExpectation;

struct FnA;
struct FnB;

fn info_of<T: 'static>() -> MockFnInfo {
    MockFnInfo::with_type_id(TypeId::of::<T>())
}

fn mk_builder(mode: PatternMatchMode, minimum: usize, k: u8, line: Option<u32>, n_resp: usize) -> DynCallPatternBuilder {
    let mut b = DynCallPatternBuilder::new(mode, ph::mk_matcher(line));
    b.count_expectation = CallCountExpectation::new(minimum, ch::exactness_of(k));
    let mut i = 0;
    while i < n_resp {
        b.responders.push(DynCallOrderResponder { response_index: i, responder: ph::tag_responder(i as u8) });
        i += 1;
    }
    b
}

fn any_mode() -> PatternMatchMode {
    if kani::any() { PatternMatchMode::InOrder } else { PatternMatchMode::InAnyOrder }
}

/// MockAssembler::new_call_pattern (C04), all (current index, mode, minimum, exactness):
///   InOrder & Exact(n): range == [cur, cur+n), cur' == cur+n;  InAnyOrder: empty range, cur' == cur (unordered clauses never
///   consume slots, whatever their quantifier);  InOrder & !Exact is excluded (unreachable through the type-state API).
///   The counter starts at 0 with the builder's expectation; responders are carried over unchanged.
//@K props=C04,C18 tier=quick label=full feat=std fn=MockAssembler::new_call_pattern
#[kani::proof]
#[kani::unwind(4)]
fn new_call_pattern_full() {
    let cur: usize = kani::any();
    let minimum: usize = kani::any();
    let (_, k) = ch::any_exactness();
    let mode = any_mode();
    let in_order = mode == PatternMatchMode::InOrder;
    // requires
    kani::assume(!in_order || k == 0);
    kani::assume(!in_order || minimum <= usize::MAX - cur);
    let mut asm = MockAssembler::new();
    asm.current_call_index = cur;
    let p = asm.new_call_pattern(mk_builder(mode, minimum, k, None, 2));
    if in_order {
        assert!(p.ordered_call_index_range.start == cur);
        assert!(p.ordered_call_index_range.end == cur + minimum);
        assert!(asm.current_call_index == cur + minimum);
    } else {
        // an unordered pattern owns no slot: its range is EMPTY (the property does not say which empty range)
        assert!(p.ordered_call_index_range.end <= p.ordered_call_index_range.start);
        assert!(asm.current_call_index == cur);
    }
    assert!(ch::peek(&p.call_counter) == 0);
    assert!(ch::peek_expectation(&p.call_counter) == (minimum, k));
    assert!(p.responders.len() == 2);
    assert!(p.responders[0].response_index == 0 && p.responders[1].response_index == 1);
    assert!(matches!(p.responders[0].responder, crate::responder::DynResponder::Unmock));
    assert!(matches!(p.responders[1].responder, crate::responder::DynResponder::ApplyDefaultImpl));
    kani::cover!(in_order);
    kani::cover!(!in_order && k == 0);
    core::mem::forget(p);
    core::mem::forget(asm);
}



/// MockAssembler::push (C14): a builder carrying a responder error (a configured return that cannot be produced in
/// this feature set) is rejected at construction; nothing is registered and no slot is consumed.
//@K props=C14 tier=quick label=full feat=std fn=MockAssembler::push
#[kani::proof]
#[kani::unwind(5)]
fn push_rejects_responder_error() {
    let mut asm = MockAssembler::new();
    let cur: usize = kani::any();
    asm.current_call_index = cur;
    let mode = any_mode();
    let mut b = mk_builder(mode, 1, 0, None, 0);
    b.responder_error = Some(if kani::any() { OutputError::OwnershipRequired } else { OutputError::NoMutexApi });
    let r = asm.push(info_of::<FnA>(), b);
    assert!(r.is_err()); // construction fails; what the doomed assembler holds afterwards is not part of the property
    kani::cover!(true);
    core::mem::forget(r);
    core::mem::forget(asm);
}

/// MockAssembler::push on a method not seen before (C01, C14): registers exactly [p] with the clause's mode.
/// NOT COVERED: the occupied-entry path (append to an existing method, mode-conflict rejection).  Two pushes for the same
/// TypeId make CBMC time out (> 50 min) or run out of memory inside std's BTreeMap entry API, also with TypeId::cmp stubbed;
/// measured 2026-09-27, harnesses removed.
//@K props=C01,C14,C18 tier=quick label=full feat=std fn=MockAssembler::push[vacant]
#[kani::proof]
#[kani::unwind(5)]
fn push_vacant_registers_single_pattern() {
    let mode = any_mode();
    let k = if mode == PatternMatchMode::InOrder { 0 } else { ch::any_exactness().1 };
    let minimum: usize = kani::any();
    let mut asm = MockAssembler::new();
    assert!(asm.push(info_of::<FnA>(), mk_builder(mode, minimum, k, None, 1)).is_ok());
    assert!(asm.fn_mockers.len() == 1);
    let fm = asm.fn_mockers.first_key_value().unwrap().1;
    assert!(fm.pattern_match_mode == mode);
    assert!(fm.info.type_id == TypeId::of::<FnA>());
    assert!(fm.call_patterns.len() == 1);
    assert!(ch::peek_expectation(&fm.call_patterns[0].call_counter) == (minimum, k));
    assert!(fm.call_patterns[0].responders.len() == 1);
    kani::cover!(mode == PatternMatchMode::InOrder);
    kani::cover!(mode == PatternMatchMode::InAnyOrder);
    core::mem::forget(asm);
}

/// MockAssembler::finish (C01): hands the per-method pattern lists over unchanged - same patterns, same (declaration) order,
/// whatever the source locations of their matchers (symbolic line numbers), expectations or counts.
//@K props=C01,C18 tier=quick label=full feat=std fn=MockAssembler::finish
#[kani::proof]
#[kani::unwind(5)]
fn finish_preserves_declaration_order() {
    let mut asm = MockAssembler::new();
    let l0: Option<u32> = if kani::any() { Some(kani::any()) } else { None };
    let l1: Option<u32> = if kani::any() { Some(kani::any()) } else { None };
    let l2: Option<u32> = if kani::any() { Some(kani::any()) } else { None };
    {
        // register a method with three patterns directly (the occupied-entry path of push is out of CBMC's reach)
        let mut ps: Vec<CallPattern> = Vec::with_capacity(3);
        ps.push(ph::mk_pattern_with(ph::mk_matcher(l0), ch::mk_counter(kani::any(), 10, 1)));
        ps.push(ph::mk_pattern_with(ph::mk_matcher(l1), ch::mk_counter(kani::any(), 11, 1)));
        ps.push(ph::mk_pattern_with(ph::mk_matcher(l2), ch::mk_counter(kani::any(), 12, 1)));
        let fm = FnMocker { info: info_of::<FnA>(), pattern_match_mode: PatternMatchMode::InAnyOrder, call_patterns: ps };
        asm.fn_mockers.insert(TypeId::of::<FnA>(), fm);
    }
    let map = asm.finish();
    assert!(map.len() == 1);
    let fm = map.first_key_value().unwrap().1;
    assert!(fm.call_patterns.len() == 3);
    assert!(ch::peek_expectation(&fm.call_patterns[0].call_counter).0 == 10);
    assert!(ch::peek_expectation(&fm.call_patterns[1].call_counter).0 == 11);
    assert!(ch::peek_expectation(&fm.call_patterns[2].call_counter).0 == 12);
    kani::cover!(l0.is_some() && l1.is_some() && l0.unwrap() > l1.unwrap());
    kani::cover!(l0.is_some() && l1.is_none());
    core::mem::forget(map);
}

/// Concrete witness instance of the contract above (source lines 30, 20, none): a change that makes the symbolic
/// harness exceed its time limit (e.g. a sort with symbolic keys) still fails here with a replayable input.
/// MockAssembler::finish (C01): hands the per-method pattern lists over unchanged - same patterns, same (declaration) order,
/// whatever the source locations of their matchers (symbolic line numbers), expectations or counts.
//@K props=C01,C18 tier=quick label=inst feat=std fn=MockAssembler::finish
#[kani::proof]
#[kani::unwind(5)]
fn finish_preserves_declaration_order_witness() {
    let mut asm = MockAssembler::new();
    let l0: Option<u32> = Some(30);
    let l1: Option<u32> = Some(20);
    let l2: Option<u32> = None;
    {
        // register a method with three patterns directly (the occupied-entry path of push is out of CBMC's reach)
        let mut ps: Vec<CallPattern> = Vec::with_capacity(3);
        ps.push(ph::mk_pattern_with(ph::mk_matcher(l0), ch::mk_counter(kani::any(), 10, 1)));
        ps.push(ph::mk_pattern_with(ph::mk_matcher(l1), ch::mk_counter(kani::any(), 11, 1)));
        ps.push(ph::mk_pattern_with(ph::mk_matcher(l2), ch::mk_counter(kani::any(), 12, 1)));
        let fm = FnMocker { info: info_of::<FnA>(), pattern_match_mode: PatternMatchMode::InAnyOrder, call_patterns: ps };
        asm.fn_mockers.insert(TypeId::of::<FnA>(), fm);
    }
    let map = asm.finish();
    assert!(map.len() == 1);
    let fm = map.first_key_value().unwrap().1;
    assert!(fm.call_patterns.len() == 3);
    assert!(ch::peek_expectation(&fm.call_patterns[0].call_counter).0 == 10);
    assert!(ch::peek_expectation(&fm.call_patterns[1].call_counter).0 == 11);
    assert!(ch::peek_expectation(&fm.call_patterns[2].call_counter).0 == 12);
    kani::cover!(true);
    core::mem::forget(map);
}

/// Modular twin of new_call_pattern_full: `exact_calls` is replaced by its VERIFIED in-place contract (`stub_verified`).
//@K props=C04 tier=quick label=full feat=std fn=MockAssembler::new_call_pattern[modular:exact_calls-by-contract]
#[kani::proof]
#[kani::unwind(4)]
#[kani::stub_verified(CallCountExpectation::exact_calls)]
fn new_call_pattern_modular() {
    let cur: usize = kani::any();
    let minimum: usize = kani::any();
    let (_, k) = ch::any_exactness();
    let mode = any_mode();
    let in_order = mode == PatternMatchMode::InOrder;
    kani::assume(!in_order || k == 0);
    kani::assume(!in_order || minimum <= usize::MAX - cur);
    let mut asm = MockAssembler::new();
    asm.current_call_index = cur;
    let p = asm.new_call_pattern(mk_builder(mode, minimum, k, None, 0));
    if in_order {
        assert!(p.ordered_call_index_range.start == cur && p.ordered_call_index_range.end == cur + minimum);
        assert!(asm.current_call_index == cur + minimum);
    } else {
        assert!(p.ordered_call_index_range.end <= p.ordered_call_index_range.start);
        assert!(asm.current_call_index == cur);
    }
    kani::cover!(in_order);
    kani::cover!(!in_order);
    core::mem::forget(p);
    core::mem::forget(asm);
}
