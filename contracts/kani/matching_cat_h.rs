//@extcrate
// K-inst: the code under contract is the EXPANSION of the real `matching!` proc macro for a catalogue of invocations.
// Each instance is proved over its whole argument domain:  verdict(diagnostics off) == verdict(diagnostics on) ==
// the Rust `match` written next to it (C06); for guard-free single-alternative instances the recorded mismatch positions
// are exactly the arguments whose sub-pattern rejects (C19).  Programs are sampled by catalogue; inputs are exhaustive.
//
// Hook (cfg(kani) only, appended to the scratch copy's src/lib.rs; calls only existing crate functions):
//@append src/lib.rs
//@ #[cfg(kani)]
//@ #[doc(hidden)]
//@ pub fn __verif_match<F: MockFn>(
//@     matching_fn: &dyn Fn(&mut Matching<F>),
//@     inputs: &F::Inputs<'_>,
//@     diagnostics: bool,
//@ ) -> (Option<bool>, usize, u8, [u8; 8]) {
//@     // returns: verdict, number of recorded mismatches, bit mask of their argument positions, kind per position
//@     let pattern = call_pattern::CallPattern {
//@         input_matcher: call_pattern::DynInputMatcher::from_matching_fn::<F>(matching_fn),
//@         responders: alloc::vec![],
//@         ordered_call_index_range: 0..0,
//@         call_counter: counter::CallCountExpectation::default().into_counter(),
//@     };
//@     let res = if diagnostics {
//@         let mut reporter = private::MismatchReporter::new_enabled();
//@         let r = pattern.match_inputs::<F>(inputs, Some(&mut reporter)).ok();
//@         let mut mask = 0u8;
//@         let mut kinds = [255u8; 8];
//@         let mut dup = false;
//@         for (index, mismatch) in reporter.mismatches.iter() {
//@             let kind = match mismatch.kind {
//@                 mismatch::MismatchKind::Pattern => 0u8,
//@                 mismatch::MismatchKind::Eq => 1u8,
//@                 mismatch::MismatchKind::Ne => 2u8,
//@             };
//@             if index.0 < 8 {
//@                 if (mask >> index.0) & 1 == 1 { dup = true; }
//@                 mask |= 1 << index.0;
//@                 kinds[index.0] = kind;
//@             } else {
//@                 dup = true;
//@             }
//@         }
//@         let n = if dup { usize::MAX } else { reporter.mismatches.len() };
//@         core::mem::forget(reporter);
//@         (r, n, mask, kinds)
//@     } else {
//@         (pattern.match_inputs::<F>(inputs, None).ok(), 0, 0, [255u8; 8])
//@     };
//@     core::mem::forget(pattern);
//@     res
//@ }
//@end
#![allow(unused_variables, unused_imports, dead_code, unreachable_patterns)]
use alloc::string::String;
use alloc::vec::Vec;
use unimock::{matching, MockFn, MockFnInfo};

pub fn fmt_stub(_args: core::fmt::Arguments<'_>) -> String {
    String::new()
}

macro_rules! mock_fn {
    ($name:ident, $inputs:ty) => {
        pub struct $name;
        impl MockFn for $name {
            type Inputs<'i> = $inputs;
            type OutputKind = unimock::output::Owning<()>;
            type AnswerFn = dyn Fn() + Send + Sync;
            fn info() -> MockFnInfo {
                MockFnInfo::new::<Self>()
            }
        }
    };
}

#[derive(Clone, Copy, PartialEq, Eq, Debug)]
pub enum E {
    A,
    B(u8),
    C { x: u8, y: bool },
}
impl kani::Arbitrary for E {
    fn any() -> Self {
        match kani::any::<u8>() % 3 {
            0 => E::A,
            1 => E::B(kani::any()),
            _ => E::C { x: kani::any(), y: kani::any() },
        }
    }
}
#[derive(Clone, Copy, PartialEq, Eq, Debug)]
pub struct P {
    pub a: u8,
    pub b: i8,
}

mock_fn!(F1u8, u8);
mock_fn!(F2, (u8, Option<i8>));
mock_fn!(F2uu, (u8, u8));
mock_fn!(F3, (u8, bool, i8));
mock_fn!(FE, E);
mock_fn!(FP, (P, u8));
mock_fn!(FT, (u8, (u8, bool)));
mock_fn!(F0, ());
mock_fn!(FStr, &'i str);
mock_fn!(FString, String);
mock_fn!(FSlice, &'i [u8]);
mock_fn!(FStr2, (&'i str, u8));

pub struct Mism {
    n: usize,
    mask: u8,
    kinds: [u8; 8],
}

fn verdicts<F: MockFn>(m: &dyn Fn(&mut unimock::private::Matching<F>), inputs: &F::Inputs<'_>) -> (bool, bool, Mism) {
    let off = unimock::__verif_match::<F>(m, inputs, false);
    let on = unimock::__verif_match::<F>(m, inputs, true);
    // a matcher function is always supplied by matching!
    assert!(off.0.is_some() && on.0.is_some());
    (off.0.unwrap(), on.0.unwrap(), Mism { n: on.1, mask: on.2, kinds: on.3 })
}

fn check(off: bool, on: bool, expect: bool) {
    assert!(off == expect); // diagnostics disabled (unordered evaluation)
    assert!(on == expect); // diagnostics enabled (ordered evaluation / error reporting)
    kani::cover!(expect, "accepting input exists");
    kani::cover!(!expect, "rejecting input exists");
}

/// C19: the recorded mismatch positions are exactly `rejecting` (a bit mask over argument positions), each once, with `kind`.
fn check_positions(expect: bool, mism: &Mism, rejecting: u8, kinds: [u8; 4], n_args: usize) {
    if expect {
        assert!(mism.n == 0);
        return;
    }
    assert!(mism.n != usize::MAX); // no position twice, none out of range
    assert!(mism.mask == rejecting);
    assert!(mism.n == rejecting.count_ones() as usize);
    let mut i = 0;
    while i < n_args {
        if (rejecting >> i) & 1 == 1 {
            assert!(mism.kinds[i] == kinds[i]);
        }
        i += 1;
    }
}

fn any_str() -> &'static str {
    match kani::any::<u8>() % 5 {
        0 => "",
        1 => "a",
        2 => "ab",
        3 => "b",
        _ => "abc",
    }
}

// ===================================================================== catalogue
// Every instance: the matching! invocation and, next to it, the equivalent Rust match.

/// literals, ranges, or-patterns, Option patterns, wildcard; 2 arguments
//@K props=C06,C19 tier=quick label=inst feat=ext fn=matching!(1..=9|200,Some(_)|None)
#[kani::proof]
#[kani::unwind(10)]
#[kani::stub(alloc::fmt::format, fmt_stub)]
fn inst_range_or_option() {
    let i: (u8, Option<i8>) = (kani::any(), kani::any());
    let (off, on, mism) = verdicts::<F2>(matching!(1..=9 | 200, Some(_) | None), &i);
    let e = match (&i.0, &i.1) {
        (1..=9 | 200, Some(_) | None) => true,
        _ => false,
    };
    check(off, on, e);
    let rej = (!matches!(i.0, 1..=9 | 200) as u8) | ((!matches!(i.1, Some(_) | None) as u8) << 1);
    check_positions(e, &mism, rej, [0, 0, 0, 0], 2);
}

/// literal + Some(range) + binding
//@K props=C06,C19 tier=thorough label=inst feat=ext fn=matching!(7,Some(-3..=3))
#[kani::proof]
#[kani::unwind(10)]
#[kani::stub(alloc::fmt::format, fmt_stub)]
#[kani::solver(minisat)]
fn inst_lit_some_range() {
    let i: (u8, Option<i8>) = (kani::any(), kani::any());
    let (off, on, mism) = verdicts::<F2>(matching!(7, Some(-3..=3)), &i);
    let e = match (&i.0, &i.1) {
        (7, Some(-3..=3)) => true,
        _ => false,
    };
    check(off, on, e);
    let rej = (!matches!(i.0, 7) as u8) | ((!matches!(i.1, Some(-3..=3)) as u8) << 1);
    check_positions(e, &mism, rej, [0, 0, 0, 0], 2);
}

/// three arguments, wildcard first (C19: positions are argument positions, not ordinals among non-wildcards)
//@K props=C06,C19 tier=quick label=inst feat=ext fn=matching!(_,true,-1)
#[kani::proof]
#[kani::unwind(10)]
#[kani::stub(alloc::fmt::format, fmt_stub)]
#[kani::solver(minisat)]
fn inst_wild_first_three_args() {
    let i: (u8, bool, i8) = (kani::any(), kani::any(), kani::any());
    let (off, on, mism) = verdicts::<F3>(matching!(_, true, -1), &i);
    let e = match (&i.0, &i.1, &i.2) {
        (_, true, -1) => true,
        _ => false,
    };
    check(off, on, e);
    let rej = ((!matches!(i.1, true) as u8) << 1) | ((!matches!(i.2, -1) as u8) << 2);
    check_positions(e, &mism, rej, [0, 0, 0, 0], 3);
}

/// single argument, @-binding with range
//@K props=C06,C19 tier=quick label=inst feat=ext fn=matching!(x@10..=20)
#[kani::proof]
#[kani::unwind(10)]
#[kani::stub(alloc::fmt::format, fmt_stub)]
fn inst_at_binding() {
    let i: u8 = kani::any();
    let (off, on, mism) = verdicts::<F1u8>(matching!(x @ 10..=20), &i);
    let e = match &i {
        x @ 10..=20 => true,
        _ => false,
    };
    check(off, on, e);
    check_positions(e, &mism, (!e) as u8, [0, 0, 0, 0], 1);
}

/// enum patterns: unit, tuple and struct variants with rest
//@K props=C06,C19 tier=quick label=inst feat=ext fn=matching!(E::A|E::B(1..=3)|E::C{x:0,..})
#[kani::proof]
#[kani::unwind(10)]
#[kani::stub(alloc::fmt::format, fmt_stub)]
fn inst_enum() {
    let i: E = kani::any();
    let (off, on, mism) = verdicts::<FE>(matching!(E::A | E::B(1..=3) | E::C { x: 0, .. }), &i);
    let e = match &i {
        E::A | E::B(1..=3) | E::C { x: 0, .. } => true,
        _ => false,
    };
    check(off, on, e);
    check_positions(e, &mism, (!e) as u8, [0, 0, 0, 0], 1);
}

/// struct pattern + binding, nested tuple pattern
//@K props=C06 tier=quick label=inst feat=ext fn=matching!(P{a:1..=5,b},_)+matching!(_,(3,true))
#[kani::proof]
#[kani::unwind(10)]
#[kani::stub(alloc::fmt::format, fmt_stub)]
fn inst_struct_and_tuple() {
    let i: (P, u8) = (P { a: kani::any(), b: kani::any() }, kani::any());
    let (off, on, _) = verdicts::<FP>(matching!(P { a: 1..=5, b }, _), &i);
    let e = match (&i.0, &i.1) {
        (P { a: 1..=5, b }, _) => true,
        _ => false,
    };
    check(off, on, e);
    let j: (u8, (u8, bool)) = (kani::any(), (kani::any(), kani::any()));
    let (off2, on2, _) = verdicts::<FT>(matching!(_, (3, true)), &j);
    let e2 = match (&j.0, &j.1) {
        (_, (3, true)) => true,
        _ => false,
    };
    check(off2, on2, e2);
}

/// eq! / ne! operands
//@K props=C06,C19 tier=quick label=inst feat=ext fn=matching!(eq!(&5),ne!(&7))
#[kani::proof]
#[kani::unwind(10)]
#[kani::stub(alloc::fmt::format, fmt_stub)]
#[kani::solver(minisat)]
fn inst_eq_ne() {
    let i: (u8, u8) = (kani::any(), kani::any());
    let (off, on, mism) = verdicts::<F2uu>(matching!(eq!(&5), ne!(&7)), &i);
    let e = i.0 == 5 && i.1 != 7;
    check(off, on, e);
    let rej = ((i.0 != 5) as u8) | (((i.1 == 7) as u8) << 1);
    check_positions(e, &mism, rej, [1, 2, 0, 0], 2);
}

/// top-level alternatives with eq! at different positions and different operands (shared hoisted locals)
//@K props=C06 tier=quick label=inst feat=ext fn=matching!((_,eq!(&1))|(eq!(&2),_))
#[kani::proof]
#[kani::unwind(10)]
#[kani::stub(alloc::fmt::format, fmt_stub)]
fn inst_alternatives_eq_diagonal() {
    let i: (u8, u8) = (kani::any(), kani::any());
    let (off, on, _) = verdicts::<F2uu>(matching!((_, eq!(&1)) | (eq!(&2), _)), &i);
    let e = i.1 == 1 || i.0 == 2;
    check(off, on, e);
}

/// top-level alternatives of plain patterns (diagnostics on must accept non-last alternatives too)
//@K props=C06 tier=quick label=inst feat=ext fn=matching!((1|2,_)|(3|4,Some(0)))
#[kani::proof]
#[kani::unwind(10)]
#[kani::stub(alloc::fmt::format, fmt_stub)]
#[kani::solver(minisat)]
fn inst_alternatives_plain() {
    let i: (u8, Option<i8>) = (kani::any(), kani::any());
    let (off, on, _) = verdicts::<F2>(matching!((1 | 2, _) | (3 | 4, Some(0))), &i);
    let e = match (&i.0, &i.1) {
        (1 | 2, _) => true,
        (3 | 4, Some(0)) => true,
        _ => false,
    };
    check(off, on, e);
}

/// guard over bindings
//@K props=C06 tier=quick label=inst feat=ext fn=matching!((a,b)if*a<*b)
#[kani::proof]
#[kani::unwind(10)]
#[kani::stub(alloc::fmt::format, fmt_stub)]
fn inst_guard_bindings() {
    let i: (u8, u8) = (kani::any(), kani::any());
    let (off, on, _) = verdicts::<F2uu>(matching!((a, b) if *a < *b), &i);
    let e = match (&i.0, &i.1) {
        (a, b) if *a < *b => true,
        _ => false,
    };
    check(off, on, e);
}

/// guard with `||` combined with an eq! operand: the guard must bind as ONE condition, `(guard) && (arg == operand)`
//@K props=C06 tier=quick label=inst feat=ext fn=matching!((x,eq!(&5))if*x==1||*x==2)
#[kani::proof]
#[kani::unwind(10)]
#[kani::stub(alloc::fmt::format, fmt_stub)]
fn inst_guard_or_with_eq() {
    let i: (u8, u8) = (kani::any(), kani::any());
    let (off, on, _) = verdicts::<F2uu>(matching!((x, eq!(&5)) if *x == 1 || *x == 2), &i);
    let e = match (&i.0, &i.1) {
        (x, m1) if (*x == 1 || *x == 2) && *m1 == 5 => true,
        _ => false,
    };
    check(off, on, e);
}

/// matching!() accepts everything
//@K props=C06 tier=quick label=inst feat=ext fn=matching!()
#[kani::proof]
#[kani::unwind(10)]
#[kani::stub(alloc::fmt::format, fmt_stub)]
fn inst_empty() {
    let (off, on, _) = verdicts::<F0>(matching!(), &());
    assert!(off && on);
    kani::cover!(true);
}

/// string literals against &str, or-pattern of literals (compared through AsRef<str>)
//@K props=C06 tier=quick label=inst feat=ext fn=matching!("a"|"ab")[&str]
#[kani::proof]
#[kani::unwind(10)]
#[kani::stub(alloc::fmt::format, fmt_stub)]
fn inst_str_literal() {
    let s: &str = any_str();
    let (off, on, _) = verdicts::<FStr>(matching!("a" | "ab"), &s);
    let e = match AsRef::<str>::as_ref(&s) {
        "a" | "ab" => true,
        _ => false,
    };
    check(off, on, e);
}

/// string literal against String, second argument literal
//@K props=C06 tier=thorough label=inst feat=ext fn=matching!("ab")[String]
#[kani::proof]
#[kani::unwind(10)]
#[kani::stub(alloc::fmt::format, fmt_stub)]
fn inst_string_literal() {
    let s: String = String::from(any_str());
    let (off, on, _) = verdicts::<FString>(matching!("ab"), &s);
    let e = match AsRef::<str>::as_ref(&s) {
        "ab" => true,
        _ => false,
    };
    check(off, on, e);
    core::mem::forget(s);
}

/// slice patterns with rest
//@K props=C06 tier=thorough label=inst feat=ext fn=matching!([1,..]|[_,_,9])[&[u8]]
#[kani::proof]
#[kani::unwind(10)]
#[kani::stub(alloc::fmt::format, fmt_stub)]
fn inst_slice_rest() {
    let arr: [u8; 3] = [kani::any(), kani::any(), kani::any()];
    let n: usize = kani::any();
    kani::assume(n <= 3);
    let s: &[u8] = &arr[..n];
    let (off, on, _) = verdicts::<FSlice>(matching!([1, ..] | [_, _, 9]), &s);
    let e = match AsRef::<[u8]>::as_ref(&s) {
        [1, ..] | [_, _, 9] => true,
        _ => false,
    };
    check(off, on, e);
}

/// string literal + plain literal, 2 arguments
//@K props=C06,C19 tier=thorough label=inst feat=ext fn=matching!("b",3)[(&str,u8)]
#[kani::proof]
#[kani::unwind(10)]
#[kani::stub(alloc::fmt::format, fmt_stub)]
#[kani::solver(minisat)]
fn inst_str_and_lit() {
    let i: (&str, u8) = (any_str(), kani::any());
    let (off, on, mism) = verdicts::<FStr2>(matching!("b", 3), &i);
    let e = match (AsRef::<str>::as_ref(&i.0), &i.1) {
        ("b", 3) => true,
        _ => false,
    };
    check(off, on, e);
    let rej = ((i.0 != "b") as u8) | (((i.1 != 3) as u8) << 1);
    check_positions(e, &mism, rej, [0, 0, 0, 0], 2);
}

// ---------------------------------------------------------------- more shapes (mostly thorough tier)
#[derive(Clone, PartialEq, Eq, Debug)]
pub struct Name(pub &'static str);
impl AsRef<str> for Name {
    fn as_ref(&self) -> &str {
        self.0
    }
}
mock_fn!(FName, Name);
mock_fn!(FBoolChar, (bool, char));
mock_fn!(FI8, i8);
mock_fn!(F3u, (u8, u8, u8));
mock_fn!(FOptOpt, Option<Option<u8>>);
mock_fn!(FRefOpt, Option<&'i u8>);

/// string literal against a newtype that implements AsRef<str>
//@K props=C06 tier=thorough label=inst feat=ext fn=matching!("ab"|"")[newtype:AsRef<str>]
#[kani::proof]
#[kani::unwind(10)]
#[kani::stub(alloc::fmt::format, fmt_stub)]
fn inst_newtype_str() {
    let n = Name(any_str());
    let (off, on, _) = verdicts::<FName>(matching!("ab" | ""), &n);
    let e = match AsRef::<str>::as_ref(&n) {
        "ab" | "" => true,
        _ => false,
    };
    check(off, on, e);
}

/// bool and char literals, char range
//@K props=C06,C19 tier=thorough label=inst feat=ext fn=matching!(false,'a'..='f')
#[kani::proof]
#[kani::unwind(10)]
#[kani::stub(alloc::fmt::format, fmt_stub)]
fn inst_bool_char() {
    let i: (bool, char) = (kani::any(), kani::any());
    let (off, on, mism) = verdicts::<FBoolChar>(matching!(false, 'a'..='f'), &i);
    let e = match (&i.0, &i.1) {
        (false, 'a'..='f') => true,
        _ => false,
    };
    check(off, on, e);
    let rej = (!matches!(i.0, false) as u8) | ((!matches!(i.1, 'a'..='f') as u8) << 1);
    check_positions(e, &mism, rej, [0, 0, 0, 0], 2);
}

/// negative literals, half-open and open-ended ranges
//@K props=C06 tier=quick label=inst feat=ext fn=matching!(-128..-100|-1|5..)
#[kani::proof]
#[kani::unwind(10)]
#[kani::stub(alloc::fmt::format, fmt_stub)]
fn inst_signed_ranges() {
    let i: i8 = kani::any();
    let (off, on, _) = verdicts::<FI8>(matching!(-128..-100 | -1 | 5..), &i);
    let e = match &i {
        -128..-100 | -1 | 5.. => true,
        _ => false,
    };
    check(off, on, e);
}

/// three alternatives with bindings and a guard over them
//@K props=C06 tier=thorough label=inst feat=ext fn=matching!((a,b,_)|(b,_,a)if*a==*b)
#[kani::proof]
#[kani::unwind(10)]
#[kani::stub(alloc::fmt::format, fmt_stub)]
fn inst_alternatives_guard() {
    let i: (u8, u8, u8) = (kani::any(), kani::any(), kani::any());
    let (off, on, _) = verdicts::<F3u>(matching!((a, b, _) | (b, _, a) if *a == *b), &i);
    let e = match (&i.0, &i.1, &i.2) {
        (a, b, _) | (b, _, a) if *a == *b => true,
        _ => false,
    };
    check(off, on, e);
}

/// overlapping alternatives with a guard: a false guard on the first alternative falls through to the second
//@K props=C06 tier=quick label=inst feat=ext fn=matching!((x,_)|(_,x)if*x==7)
#[kani::proof]
#[kani::unwind(10)]
#[kani::stub(alloc::fmt::format, fmt_stub)]
fn inst_alternatives_guard_fallthrough() {
    let i: (u8, u8) = (kani::any(), kani::any());
    let (off, on, _) = verdicts::<F2uu>(matching!((x, _) | (_, x) if *x == 7), &i);
    let e = match (&i.0, &i.1) {
        (x, _) | (_, x) if *x == 7 => true,
        _ => false,
    };
    check(off, on, e);
    kani::cover!(e && i.0 != 7, "accepted by the second alternative only");
}

/// two ne! operands in one alternative: every != must hold
//@K props=C06,C19 tier=quick label=inst feat=ext fn=matching!(ne!(&0),ne!(&1))
#[kani::proof]
#[kani::unwind(10)]
#[kani::stub(alloc::fmt::format, fmt_stub)]
#[kani::solver(minisat)]
fn inst_two_ne() {
    let i: (u8, u8) = (kani::any(), kani::any());
    let (off, on, mism) = verdicts::<F2uu>(matching!(ne!(&0), ne!(&1)), &i);
    let e = i.0 != 0 && i.1 != 1;
    check(off, on, e);
    let rej = ((i.0 == 0) as u8) | (((i.1 == 1) as u8) << 1);
    check_positions(e, &mism, rej, [2, 2, 0, 0], 2);
}

/// nested Option patterns with binding @ range
//@K props=C06,C19 tier=quick label=inst feat=ext fn=matching!(Some(None)|Some(Some(1..=3)))
#[kani::proof]
#[kani::unwind(10)]
#[kani::stub(alloc::fmt::format, fmt_stub)]
fn inst_nested_option() {
    let i: Option<Option<u8>> = kani::any();
    let (off, on, mism) = verdicts::<FOptOpt>(matching!(Some(None) | Some(Some(1..=3))), &i);
    let e = match &i {
        Some(None) | Some(Some(1..=3)) => true,
        _ => false,
    };
    check(off, on, e);
    check_positions(e, &mism, (!e) as u8, [0, 0, 0, 0], 1);
}

/// reference-typed argument: Option<&u8> with a reference pattern
//@K props=C06 tier=thorough label=inst feat=ext fn=matching!(Some(&7)|None)[Option<&u8>]
#[kani::proof]
#[kani::unwind(10)]
#[kani::stub(alloc::fmt::format, fmt_stub)]
fn inst_ref_pattern() {
    let v: u8 = kani::any();
    let i: Option<&u8> = if kani::any() { Some(&v) } else { None };
    let (off, on, _) = verdicts::<FRefOpt>(matching!(Some(&7) | None), &i);
    let e = match &i {
        Some(&7) | None => true,
        _ => false,
    };
    check(off, on, e);
}

/// ne! combined with a pattern and a guard
//@K props=C06 tier=thorough label=inst feat=ext fn=matching!((ne!(&0),x)if*x>10)
#[kani::proof]
#[kani::unwind(10)]
#[kani::stub(alloc::fmt::format, fmt_stub)]
fn inst_ne_with_guard() {
    let i: (u8, u8) = (kani::any(), kani::any());
    let (off, on, _) = verdicts::<F2uu>(matching!((ne!(&0), x) if *x > 10), &i);
    let e = match (&i.0, &i.1) {
        (m0, x) if (*x > 10) && *m0 != 0 => true,
        _ => false,
    };
    check(off, on, e);
}


/// bare identifiers that are NOT bindings: `None` (a unit variant in scope) is refutable although syn parses it as Pat::Ident
//@K props=C06,C19 tier=quick label=inst feat=ext fn=matching!(_,None)
#[kani::proof]
#[kani::unwind(10)]
#[kani::stub(alloc::fmt::format, fmt_stub)]
fn inst_bare_ident_refutable() {
    let i: (u8, Option<i8>) = (kani::any(), kani::any());
    let (off, on, mism) = verdicts::<F2>(matching!(_, None), &i);
    let e = match (&i.0, &i.1) {
        (_, None) => true,
        _ => false,
    };
    check(off, on, e);
    check_positions(e, &mism, ((!matches!(i.1, None)) as u8) << 1, [0, 0, 0, 0], 2);
}

/// ... next to a literal (two rejecting positions possible)
//@K props=C06,C19 tier=thorough label=inst feat=ext fn=matching!(7,None)
#[kani::proof]
#[kani::unwind(10)]
#[kani::stub(alloc::fmt::format, fmt_stub)]
fn inst_lit_and_bare_ident() {
    let i: (u8, Option<i8>) = (kani::any(), kani::any());
    let (off2, on2, mism2) = verdicts::<F2>(matching!(7, None), &i);
    let e2 = match (&i.0, &i.1) {
        (7, None) => true,
        _ => false,
    };
    check(off2, on2, e2);
    let rej = (!matches!(i.0, 7) as u8) | ((!matches!(i.1, None) as u8) << 1);
    check_positions(e2, &mism2, rej, [0, 0, 0, 0], 2);
}
