//! Stubs used only by Tier K harnesses (cfg(kani) dependency of the scratch copy; never part of /repo).
#![no_std]

/// Typed three-move swap.  Replaces `core::mem::swap` (whose chunked byte copy of pointer-carrying structs makes CBMC
/// time out) in harnesses that reach `DynBuilderWrapper::steal`.  Assumed equivalent to `core::mem::swap` (std contract).
pub fn swap_typed<T>(a: &mut T, b: &mut T) {
    unsafe {
        let t = core::ptr::read(a);
        core::ptr::write(a, core::ptr::read(b));
        core::ptr::write(b, t);
    }
}
