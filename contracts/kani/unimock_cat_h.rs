//@extcrate
// K-inst: the code under contract is the EXPANSION of the real `#[unimock]` proc macro for a small catalogue of return-type
// spellings.  Obligation (C17, "borrowed leaves can be returned on every call ... chosen by a syntactic analysis of the
// signature"): the output kind the macro selects for a composite whose leaves borrow from `self` is the same lending kind
// whether the receiver lifetime is elided or written out, and is never the single-slot `Owning` kind.  Loop-free harnesses
// over type identities: complete per instance; the catalogue samples programs.
use core::any::TypeId;
use unimock::output::{Deep, Lending, Owning, Shallow};
use unimock::MockFn;

#[unimock::unimock(api = SpellMock)]
trait Spell {
    fn opt_elided(&self) -> Option<&u8>;
    fn opt_named<'s>(&'s self) -> Option<&'s u8>;
    fn res_elided(&self) -> Result<&u8, i8>;
    fn res_named<'s>(&'s self) -> Result<&'s u8, i8>;
    fn tup_elided(&self) -> (u8, &u8);
    fn tup_named<'s>(&'s self) -> (u8, &'s u8);
    fn vec_elided(&self) -> Vec<&u8>;
    fn vec_named<'s>(&'s self) -> Vec<&'s u8>;
    fn nested_elided(&self) -> Option<Option<&u8>>;
    fn nested_named<'s>(&'s self) -> Option<Option<&'s u8>>;
}

fn kind<F: MockFn>() -> TypeId
where
    F::OutputKind: 'static,
{
    TypeId::of::<F::OutputKind>()
}

/// Option / Result / Vec / nested Option of a self-borrowed leaf: same kind for both spellings, and not Owning.
//@K props=C17 tier=quick label=inst feat=ext fn=#[unimock]::output-kind(Option<&T>,Result<&T,E>,Vec<&T>,Option<Option<&T>>;elided|named)
#[kani::proof]
fn kind_named_self_lifetime_equals_elided() {
    assert!(kind::<SpellMock::opt_elided>() == kind::<SpellMock::opt_named>());
    assert!(kind::<SpellMock::res_elided>() == kind::<SpellMock::res_named>());
    assert!(kind::<SpellMock::vec_elided>() == kind::<SpellMock::vec_named>());
    assert!(kind::<SpellMock::nested_elided>() == kind::<SpellMock::nested_named>());
    assert!(kind::<SpellMock::opt_named>() != TypeId::of::<Owning<Option<&'static u8>>>());
    assert!(kind::<SpellMock::res_named>() != TypeId::of::<Owning<Result<&'static u8, i8>>>());
    assert!(kind::<SpellMock::vec_named>() != TypeId::of::<Owning<Vec<&'static u8>>>());
    assert!(kind::<SpellMock::nested_named>() != TypeId::of::<Owning<Option<Option<&'static u8>>>>());
    assert!(kind::<SpellMock::opt_elided>() == TypeId::of::<Shallow<Option<&'static u8>>>());
    kani::cover!(true);
}

/// Mixed tuple (owned + self-borrowed leaf): Deep<(Owning, Lending)> for both spellings.
//@K props=C17 tier=quick label=inst feat=ext fn=#[unimock]::output-kind((T,&T);elided|named)
#[kani::proof]
fn kind_mixed_tuple_named_equals_elided() {
    assert!(kind::<SpellMock::tup_elided>() == kind::<SpellMock::tup_named>());
    assert!(kind::<SpellMock::tup_named>() == TypeId::of::<Deep<(Owning<u8>, Lending<u8>)>>());
    kani::cover!(true);
}

#[unimock::unimock(api = Spell2Mock)]
trait Spell2 {
    fn str_elided(&self) -> Option<&str>;
    fn str_named<'s>(&'s self) -> Option<&'s str>;
    fn slice_elided(&self) -> Result<&[u8], i8>;
    fn slice_named<'s>(&'s self) -> Result<&'s [u8], i8>;
    fn two_elided(&self) -> (&u8, &str);
    fn two_named<'s>(&'s self) -> (&'s u8, &'s str);
    fn res_both_elided(&self) -> Result<&u8, &i8>;
    fn res_both_named<'s>(&'s self) -> Result<&'s u8, &'s i8>;
}

/// Unsized leaves (&str, &[T]), two borrowed slots, both Result arms borrowed.  Not in the catalogue because the macro rejects them at compile time (outside the property's domain
/// "that the macro accepts"): `Poll<&T>` (both spellings) and `Option<(T, &'s T)>` with the receiver lifetime written out.
//@K props=C17 tier=quick label=inst feat=ext fn=#[unimock]::output-kind(Option<&str>,Result<&[T],E>,(&T,&str),Result<&T,&E>;elided|named)
#[kani::proof]
fn kind_named_equals_elided_more_shapes() {
    assert!(kind::<Spell2Mock::str_elided>() == kind::<Spell2Mock::str_named>());
    assert!(kind::<Spell2Mock::slice_elided>() == kind::<Spell2Mock::slice_named>());
    assert!(kind::<Spell2Mock::two_elided>() == kind::<Spell2Mock::two_named>());
    assert!(kind::<Spell2Mock::res_both_elided>() == kind::<Spell2Mock::res_both_named>());
    assert!(kind::<Spell2Mock::str_named>() != TypeId::of::<Owning<Option<&'static str>>>());
    assert!(kind::<Spell2Mock::slice_named>() != TypeId::of::<Owning<Result<&'static [u8], i8>>>());
    kani::cover!(true);
}
