//@module src/counter.rs
// Tier K harness module, appended as a child module of src/counter.rs (cfg(kani) only).
// Contracts are stated harness-style: kani::assume = requires, assert = ensures.
use super::*;
#[allow(unused_imports)]
use crate::alloc::{vec, String, Vec};
use crate::call_pattern::PatIndex;
use crate::debug::{CallPatternDebug, CallPatternLocation};
use crate::error::MockError;
use crate::MockFnInfo;

// ---- in-place function contracts (inserted above the fn by lib/kani.py; cfg(kani) only)
//@contract src/counter.rs /pub fn lower_bound\(&self\) -> NCalls \{/
//@ #[cfg_attr(kani, kani::requires(!(matches!(self.exactness, Exactness::AtLeastPlusOne) && self.minimum == usize::MAX)))]
//@ #[cfg_attr(kani, kani::ensures(|r: &NCalls| r.0 == self.minimum + if matches!(self.exactness, Exactness::AtLeastPlusOne) {1} else {0}))]
//@end
//@contract src/counter.rs /pub fn add_to_minimum\(&mut self, delta: usize, exactness: Exactness\) \{/
//@ #[cfg_attr(kani, kani::requires(self.minimum <= usize::MAX - delta))]
//@ #[cfg_attr(kani, kani::modifies(self))]
//@ #[cfg_attr(kani, kani::ensures(|_| self.minimum == old(self.minimum) + delta))]
//@end
//@contract src/counter.rs /pub fn exact_calls\(&self\) -> Option<NCalls> \{/
//@ #[cfg_attr(kani, kani::ensures(|r: &Option<NCalls>| match r { Some(n) => matches!(self.exactness, Exactness::Exact) && n.0 == self.minimum, None => !matches!(self.exactness, Exactness::Exact) }))]
//@end

impl kani::Arbitrary for NCalls {
    fn any() -> Self {
        NCalls(kani::any())
    }
}

pub(crate) fn fmt_stub(_args: core::fmt::Arguments<'_>) -> String {
    String::new()
}

pub(crate) fn exactness_of(k: u8) -> Exactness {
    match k {
        0 => Exactness::Exact,
        1 => Exactness::AtLeast,
        _ => Exactness::AtLeastPlusOne,
    }
}

pub(crate) fn exactness_code(e: &Exactness) -> u8 {
    match e {
        Exactness::Exact => 0,
        Exactness::AtLeast => 1,
        Exactness::AtLeastPlusOne => 2,
    }
}

pub(crate) fn any_exactness() -> (Exactness, u8) {
    let k: u8 = kani::any();
    kani::assume(k < 3);
    (exactness_of(k), k)
}

/// helper for harnesses of other modules: build a counter with a given state (fields are private to counter.rs)
pub(crate) fn mk_counter(actual: usize, minimum: usize, k: u8) -> CallCounter {
    CallCounter {
        actual_count: AtomicUsize::new(actual),
        expectation: CallCountExpectation::new(minimum, exactness_of(k)),
    }
}

pub(crate) fn peek(c: &CallCounter) -> usize {
    c.actual_count.load(core::sync::atomic::Ordering::SeqCst)
}

pub(crate) fn peek_expectation(c: &CallCounter) -> (usize, u8) {
    (c.expectation.minimum, exactness_code(&c.expectation.exactness))
}

pub(crate) fn peek_exp(e: &CallCountExpectation) -> (usize, u8) {
    (e.minimum, exactness_code(&e.exactness))
}

/// the statement's predicate (C03): exactly n / at least n / at least n+1
pub(crate) fn violated(actual: usize, minimum: usize, k: u8) -> bool {
    match k {
        0 => actual != minimum,
        1 => actual < minimum,
        _ => actual <= minimum,
    }
}

struct Dummy;

/// Contract of CallCounter::verify (C03): for ALL (actual, minimum, exactness):
///  returns actual; pushes exactly one FailedVerification iff the expectation is violated;
///  never touches existing entries; the counter is not modified.
//@K props=C03 tier=quick label=full feat=std fn=CallCounter::verify
#[kani::proof]
#[kani::stub(alloc::fmt::format, fmt_stub)]
fn verify_full() {
    let actual: usize = kani::any();
    let minimum: usize = kani::any();
    let (_, k) = any_exactness();
    // requires: lower_bound() does not overflow
    kani::assume(!(k == 2 && minimum == usize::MAX));
    let counter = mk_counter(actual, minimum, k);
    let info = MockFnInfo::with_type_id(core::any::TypeId::of::<Dummy>());
    // one pre-existing entry, fixed capacity (a symbolic Vec length makes CBMC explode: 428 s vs 3 s)
    let mut errors: Vec<MockError> = Vec::with_capacity(2);
    errors.push(MockError::MockNeverCalled { info });
    let pre_len = errors.len();
    let r = counter.verify(
        &info,
        || CallPatternDebug::new(info, CallPatternLocation::PatIndex(PatIndex(0))),
        &mut errors,
    );
    // ensures
    assert!(r.0 == actual);
    let violated = violated(actual, minimum, k);
    if violated {
        assert!(errors.len() == pre_len + 1);
        assert!(matches!(errors[pre_len], MockError::FailedVerification(_)));
    } else {
        assert!(errors.len() == pre_len);
    }
    assert!(matches!(errors[0], MockError::MockNeverCalled { .. }));
    // frame: the counter is read-only
    assert!(peek(&counter) == actual);
    kani::cover!(violated, "violated reachable");
    kani::cover!(!violated, "satisfied reachable");
    core::mem::forget(errors);
}

/// Contract of CallCounter::fetch_add (C01/C02): returns the old value, new = old + 1.
//@K props=C01,C02 tier=quick label=full feat=std fn=CallCounter::fetch_add
#[kani::proof]
fn fetch_add_full() {
    let actual: usize = kani::any();
    kani::assume(actual < usize::MAX);
    let counter = mk_counter(actual, kani::any(), any_exactness().1);
    let r = counter.fetch_add();
    assert!(r == actual);
    assert!(peek(&counter) == actual + 1);
    kani::cover!(true);
}

/// into_counter starts at zero and keeps the expectation.
//@K props=C03,C02 tier=quick label=full feat=std fn=CallCountExpectation::into_counter
#[kani::proof]
fn into_counter_full() {
    let minimum: usize = kani::any();
    let (exactness, k) = any_exactness();
    let c = CallCountExpectation::new(minimum, exactness).into_counter();
    assert!(peek(&c) == 0);
    assert!(peek_expectation(&c) == (minimum, k));
    kani::cover!(true);
}

/// In-place Kani function contracts (see //@contract above), proved for all inputs.
//@K props=C03 tier=quick label=full feat=std fn=CallCountExpectation::lower_bound
#[kani::proof_for_contract(CallCountExpectation::lower_bound)]
fn lower_bound_contract() {
    let e = CallCountExpectation::new(kani::any(), any_exactness().0);
    e.lower_bound();
    kani::cover!(true);
}

//@K props=C02,C03 tier=quick label=full feat=std fn=CallCountExpectation::add_to_minimum
#[kani::proof_for_contract(CallCountExpectation::add_to_minimum)]
fn add_to_minimum_contract() {
    let mut e = CallCountExpectation::new(kani::any(), any_exactness().0);
    let (ex, k) = any_exactness();
    e.add_to_minimum(kani::any(), ex);
    assert!(exactness_code(&e.exactness) == k);
    kani::cover!(true);
}

//@K props=C04 tier=quick label=full feat=std fn=CallCountExpectation::exact_calls
#[kani::proof_for_contract(CallCountExpectation::exact_calls)]
fn exact_calls_contract() {
    let e = CallCountExpectation::new(kani::any(), any_exactness().0);
    e.exact_calls();
    kani::cover!(true);
}

/// Modular twin of verify_full: the callee `lower_bound` is replaced by its VERIFIED contract (`stub_verified`), so
/// CallCounter::verify is checked against lower_bound's contract, not its body.
//@K props=C03 tier=quick label=full feat=std fn=CallCounter::verify[modular:lower_bound-by-contract]
#[kani::proof]
#[kani::stub(alloc::fmt::format, fmt_stub)]
#[kani::stub_verified(CallCountExpectation::lower_bound)]
fn verify_full_modular() {
    let actual: usize = kani::any();
    let minimum: usize = kani::any();
    let (_, k) = any_exactness();
    kani::assume(!(k == 2 && minimum == usize::MAX));
    let counter = mk_counter(actual, minimum, k);
    let info = MockFnInfo::with_type_id(core::any::TypeId::of::<Dummy>());
    let mut errors: Vec<MockError> = Vec::with_capacity(2);
    let r = counter.verify(
        &info,
        || CallPatternDebug::new(info, CallPatternLocation::PatIndex(PatIndex(0))),
        &mut errors,
    );
    assert!(r.0 == actual);
    assert!(errors.len() == if violated(actual, minimum, k) { 1 } else { 0 });
    kani::cover!(violated(actual, minimum, k));
    kani::cover!(!violated(actual, minimum, k));
    core::mem::forget(errors);
}
