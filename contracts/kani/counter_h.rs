//@module src/counter.rs
// Tier K harness module, appended as a child module of src/counter.rs (cfg(kani) only).
// Contracts are stated harness-style: kani::assume = requires, assert = ensures.
use super::*;
#[allow(unused_imports)]
use crate::alloc::{vec, String, Vec};
use crate::debug::{CallPatternDebug, CallPatternLocation};
use crate::call_pattern::PatIndex;
use crate::error::MockError;
use crate::MockFnInfo;

pub(crate) fn fmt_stub(_args: core::fmt::Arguments<'_>) -> String {
    String::new()
}

fn any_exactness() -> (Exactness, u8) {
    let k: u8 = kani::any();
    kani::assume(k < 3);
    (
        match k {
            0 => Exactness::Exact,
            1 => Exactness::AtLeast,
            _ => Exactness::AtLeastPlusOne,
        },
        k,
    )
}

struct Dummy;

/// Contract of CallCounter::verify (C03): for ALL (actual, minimum, exactness):
///  returns actual; pushes exactly one FailedVerification iff the expectation is violated;
///  never touches existing entries.
//@K props=C03 tier=quick label=full feat=std fn=CallCounter::verify
#[kani::proof]
#[kani::stub(alloc::fmt::format, fmt_stub)]
fn verify_full() {
    let actual: usize = kani::any();
    let minimum: usize = kani::any();
    let (exactness, k) = any_exactness();
    // requires: lower_bound() does not overflow
    kani::assume(!(k == 2 && minimum == usize::MAX));
    let counter = CallCounter {
        actual_count: AtomicUsize::new(actual),
        expectation: CallCountExpectation::new(minimum, exactness),
    };
    let info = MockFnInfo::with_type_id(core::any::TypeId::of::<Dummy>());
    // one pre-existing entry, fixed capacity (a symbolic Vec length makes CBMC explode: 428 s vs 3 s)
    let mut errors: Vec<MockError> = Vec::with_capacity(2);
    let pre = true;
    errors.push(MockError::MockNeverCalled { info });
    let pre_len = errors.len();
    let r = counter.verify(
        &info,
        || CallPatternDebug::new(info, CallPatternLocation::PatIndex(PatIndex(0))),
        &mut errors,
    );
    // ensures
    assert!(r.0 == actual);
    let violated = match k {
        0 => actual != minimum,
        1 => actual < minimum,
        _ => actual <= minimum, // at least minimum + 1
    };
    if violated {
        assert!(errors.len() == pre_len + 1);
        assert!(matches!(errors[pre_len], MockError::FailedVerification(_)));
    } else {
        assert!(errors.len() == pre_len);
    }
    if pre {
        assert!(matches!(errors[0], MockError::MockNeverCalled { .. }));
    }
    // frame: the counter is read-only
    assert!(counter.actual_count.load(core::sync::atomic::Ordering::SeqCst) == actual);
    kani::cover!(violated, "violated reachable");
    kani::cover!(!violated, "satisfied reachable");
    core::mem::forget(errors);
}

/// Contract of CallCounter::fetch_add (C01/C02): returns the old value, new = old + 1 (wrapping at MAX excluded).
//@K props=C01,C02 tier=quick label=full feat=std fn=CallCounter::fetch_add
#[kani::proof]
fn fetch_add_full() {
    let actual: usize = kani::any();
    kani::assume(actual < usize::MAX);
    let counter = CallCounter {
        actual_count: AtomicUsize::new(actual),
        expectation: CallCountExpectation::new(kani::any(), any_exactness().0),
    };
    let r = counter.fetch_add();
    assert!(r == actual);
    assert!(counter.actual_count.load(core::sync::atomic::Ordering::SeqCst) == actual + 1);
    kani::cover!(true);
}

/// into_counter starts at zero and keeps the expectation.
//@K props=C03,C02 tier=quick label=full feat=std fn=CallCountExpectation::into_counter
#[kani::proof]
fn into_counter_full() {
    let minimum: usize = kani::any();
    let (exactness, k) = any_exactness();
    let c = CallCountExpectation::new(minimum, exactness).into_counter();
    assert!(c.actual_count.load(core::sync::atomic::Ordering::SeqCst) == 0);
    assert!(c.expectation.minimum == minimum);
    assert!(match c.expectation.exactness { Exactness::Exact => k == 0, Exactness::AtLeast => k == 1, Exactness::AtLeastPlusOne => k == 2 });
    kani::cover!(true);
}
