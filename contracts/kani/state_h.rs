//@module src/state.rs
// Tier K harness module, child of src/state.rs.  SharedState::new reaches std::thread::current() with the
// `std` feature (Kani ICE), so these harnesses build the no_std + spin-lock feature set.
use super::*;
#[allow(unused_imports)]
use crate::{error, fn_mocker::{FnMocker, PatternMatchMode}, FallbackMode};
#[allow(unused_imports)]
use crate::alloc::BTreeMap;
#[allow(unused_imports)]
use crate::alloc::{vec, String, Vec};

pub(crate) fn empty_state(mode: FallbackMode) -> SharedState {
    SharedState::new(BTreeMap::new(), mode)
}

pub(crate) fn set_ordered_index(s: &SharedState, v: usize) {
    s.next_ordered_call_index.store(v, core::sync::atomic::Ordering::SeqCst);
}

pub(crate) fn peek_ordered_index(s: &SharedState) -> usize {
    s.next_ordered_call_index.load(core::sync::atomic::Ordering::SeqCst)
}

pub(crate) struct DummyS;

/// SharedState::bump_ordered_call_index (C04): returns the old value, new = old + 1.
//@K props=C04 tier=quick label=full feat=nostd fn=SharedState::bump_ordered_call_index
#[kani::proof]
fn bump_full() {
    let s = empty_state(FallbackMode::Error);
    let v: usize = kani::any();
    kani::assume(v < usize::MAX);
    set_ordered_index(&s, v);
    let r = s.bump_ordered_call_index();
    assert!(r == v);
    assert!(peek_ordered_index(&s) == v + 1);
    kani::cover!(true);
    core::mem::forget(s);
}

macro_rules! clone_reasons_harness {
    ($name:ident, $n:expr) => {
        /// SharedState::clone_panic_reasons (C08, K-bnd in the number of recorded errors): returns a list of the
        /// same length and kinds and leaves the stored list unchanged (reading does not clear).
        #[kani::proof]
        #[kani::unwind(6)]
        fn $name() {
            const N: usize = $n;
            let s = empty_state(FallbackMode::Error);
            let info = crate::MockFnInfo::with_type_id(core::any::TypeId::of::<DummyS>());
            let mut i = 0;
            while i < N {
                s.panic_reasons.locked(|r| {
                    if i % 2 == 0 {
                        r.push(error::MockError::MockNeverCalled { info })
                    } else {
                        r.push(error::MockError::CannotUnmock { info })
                    }
                });
                i += 1;
            }
            let c1 = s.clone_panic_reasons();
            assert!(c1.len() == N);
            let stored = s.panic_reasons.locked(|r| r.len());
            assert!(stored == N);
            let mut j = 0;
            while j < N {
                if j % 2 == 0 {
                    assert!(matches!(c1[j], error::MockError::MockNeverCalled { .. }));
                } else {
                    assert!(matches!(c1[j], error::MockError::CannotUnmock { .. }));
                }
                j += 1;
            }
            kani::cover!(true);
            core::mem::forget(c1);
            core::mem::forget(s);
        }
    };
}

//@K props=C08 tier=quick label=bnd feat=nostd fn=SharedState::clone_panic_reasons bound=reasons=0
clone_reasons_harness!(clone_reasons_n0, 0);
//@K props=C08 tier=thorough label=bnd feat=nostd fn=SharedState::clone_panic_reasons bound=reasons=1 timeout=1200
clone_reasons_harness!(clone_reasons_n1, 1);
