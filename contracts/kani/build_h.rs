//@module src/build.rs
//@needs counter_h call_pattern_h
// Tier K harness module, child of src/build.rs: the type-state wrappers refine the abstract builder operations
// (push_responder / quantify / then) that the Tier V chain lemma consumes (C02, C03, C04, C12).
use super::*;
#[allow(unused_imports)]
use crate::{build::dyn_builder::{DynBuilderWrapper, DynCallPatternBuilder}, call_pattern::{DynCallOrderResponder, DynInputMatcher}, clause, counter, fn_mocker::PatternMatchMode, property::{AtLeast, Exact, InAnyOrder, InOrder}, responder::DynResponder, Clause, MockFn, MockFnInfo, Unimock};
#[allow(unused_imports)]
use core::marker::PhantomData;
#[allow(unused_imports)]
use crate::alloc::{vec, String, Vec};
use crate::call_pattern::__verif_call_pattern_h as ph;
use crate::counter::__verif_counter_h as ch;
use crate::counter::CallCountExpectation;
use crate::responder::DowncastResponder;

/// see contracts/kani/verif_stubs: typed swap standing in for core::mem::swap
pub(crate) fn swap_stub<T>(a: &mut T, b: &mut T) {
    verif_stubs::swap_typed(a, b)
}

pub(crate) struct F8;
impl MockFn for F8 {
    type Inputs<'i> = u8;
    type OutputKind = crate::output::Owning<u8>;
    type AnswerFn = dyn Fn(&Unimock, u8) -> u8 + Send + Sync;
    fn info() -> MockFnInfo {
        MockFnInfo::new::<Self>()
    }
}

struct St {
    idx: usize,
    min: usize,
    k: u8,
    mode: PatternMatchMode,
}

fn any_state(mode: PatternMatchMode) -> (DynCallPatternBuilder, St) {
    let idx: usize = kani::any();
    let min: usize = kani::any();
    let (_, k) = ch::any_exactness();
    let mut b = DynCallPatternBuilder::new(mode, ph::mk_matcher(None));
    b.current_response_index = idx;
    b.count_expectation = CallCountExpectation::new(min, ch::exactness_of(k));
    b.responders.reserve(2);
    (b, St { idx, min, k, mode })
}

fn check_state(b: &DynCallPatternBuilder, idx: usize, min: usize, k: u8, n_resp: usize) {
    assert!(b.current_response_index == idx);
    assert!(ch::peek_exp(&b.count_expectation) == (min, k));
    assert!(b.responders.len() == n_resp);
    assert!(b.responder_error.is_none());
}

fn output_of(r: &DynResponder) -> Option<u8> {
    match r {
        DynResponder::Return(d) => match DowncastResponder::<F8>::downcast(d) {
            Ok(returner) => returner.get_output(),
            Err(_) => {
                assert!(false);
                None
            }
        },
        _ => {
            assert!(false);
            None
        }
    }
}

fn quantify_of(b: DynCallPatternBuilder) -> Quantify<'static, F8, InAnyOrder> {
    Quantify { wrapper: DynBuilderWrapper::Owned(b), mock_fn: PhantomData, ordering: InAnyOrder }
}

/// Quantify::{once, n_times, at_least_times} == quantify(1|t, Exact|AtLeast): running index and minimum advance by the
/// repeat count, exactness is set, responders untouched.
//@K props=C02,C03,C14 tier=quick label=full feat=std fn=Quantify::once,Quantify::n_times,Quantify::at_least_times
#[kani::proof]
#[kani::unwind(3)]
fn quantify_variants() {
    let (b, s) = any_state(PatternMatchMode::InAnyOrder);
    let t: usize = kani::any();
    kani::assume(t <= usize::MAX - s.idx && t <= usize::MAX - s.min);
    kani::assume(s.idx < usize::MAX && s.min < usize::MAX);
    let which: u8 = kani::any();
    kani::assume(which < 3);
    let q = quantify_of(b);
    // the type-level marker agrees with the recorded exactness (0 = Exact, 1 = AtLeast)
    let (nb, add, ek) = match which {
        0 => { let r = q.once(); assert!(rep_marker(&r) == 0); (r.wrapper.into_owned(), 1, 0u8) }
        1 => { let r = q.n_times(t); assert!(rep_marker(&r) == 0); (r.wrapper.into_owned(), t, 0u8) }
        _ => { let r = q.at_least_times(t); assert!(rep_marker(&r) == 1); (r.wrapper.into_owned(), t, 1u8) }
    };
    check_state(&nb, s.idx + add, s.min + add, ek, 0);
    kani::cover!(which == 0);
    kani::cover!(which == 1);
    kani::cover!(which == 2);
    core::mem::forget(nb);
}

/// QuantifiedResponse::then == add_to_minimum(0, AtLeastPlusOne): nothing else changes.
//@K props=C02,C03 tier=quick label=full feat=std fn=QuantifiedResponse::then
#[kani::proof]
#[kani::unwind(3)]
fn then_marks_at_least_plus_one() {
    let (b, s) = any_state(PatternMatchMode::InAnyOrder);
    let qr: QuantifiedResponse<'static, F8, InAnyOrder, Exact> =
        QuantifiedResponse { wrapper: DynBuilderWrapper::Owned(b), mock_fn: PhantomData, ordering: InAnyOrder, _repetition: Exact };
    let nb = qr.then().wrapper.into_owned();
    check_state(&nb, s.idx, s.min, 2, 0);
    kani::cover!(true);
    core::mem::forget(nb);
}

fn is_in_order(m: &PatternMatchMode) -> bool {
    matches!(m, PatternMatchMode::InOrder)
}

/// MockFn::{some_call, each_call, next_call} (C04, C14, C01): the clause entry points start from a FRESH builder (no responder,
/// running index 0, expectation (0, AtLeast)) whose match mode is the one the name says: only next_call is ordered - so only
/// next_call clauses ever take slots of the global ordered sequence (new_call_pattern's contract).
//@K props=C04,C14,C01 tier=quick label=full feat=std fn=MockFn::some_call,MockFn::each_call,MockFn::next_call
#[kani::proof]
#[kani::unwind(3)]
fn clause_entry_points_set_the_match_mode() {
    let which: u8 = kani::any();
    kani::assume(which < 3);
    let nb = match which {
        0 => F8.some_call(&|_m| {}).wrapper.into_owned(),
        1 => F8.each_call(&|_m| {}).wrapper.into_owned(),
        _ => F8.next_call(&|_m| {}).wrapper.into_owned(),
    };
    check_state(&nb, 0, 0, 1, 0);
    assert!(is_in_order(&nb.pattern_match_mode) == (which == 2));
    kani::cover!(which == 0);
    kani::cover!(which == 1);
    kani::cover!(which == 2);
    core::mem::forget(nb);
}

/// The compile-time repetition marker of a QuantifiedResponse, read as a value: 0 = Exact (`.then()` is accepted by rustc),
/// 1 = AtLeast (`.then()` is a type error).  C14: "then() can only follow an exact count" holds at compile time exactly when the
/// three quantifiers hand out the marker that matches the count they record.
fn rep_marker<'p, F: MockFn, O, R>(_q: &QuantifiedResponse<'p, F, O, R>) -> u8
where
    R: crate::property::Repetition,
    R::Kind: 'static,
{
    use core::any::TypeId;
    if TypeId::of::<R::Kind>() == TypeId::of::<Exact>() {
        0
    } else if TypeId::of::<R::Kind>() == TypeId::of::<AtLeast>() {
        1
    } else {
        2
    }
}

/// QuantifyReturnValue is only ever created by DefineResponse::returns on a FRESH builder (some_call / next_call), so the
/// fresh state (index 0, minimum 0, AtLeast) is its whole reachable domain; it is built through that real path here.
fn qrv_fresh(mode: PatternMatchMode, v: u8) -> QuantifyReturnValue<'static, F8, u8, InAnyOrder> {
    let d: DefineResponse<'static, F8, InAnyOrder> = DefineResponse::with_owned_builder(ph::mk_matcher(None), mode, InAnyOrder);
    d.returns(v)
}

/// QuantifyReturnValue::once: pushes ONE returner at the running index, then quantify(1, Exact); the stored value is
/// SINGLE-USE: first request Some(v), every later request None (C02, C12).
//@K props=C02,C03,C12,C14 tier=quick label=full feat=std fn=QuantifyReturnValue::once
#[kani::proof]
#[kani::unwind(3)]
#[kani::stub(core::mem::swap, swap_stub)] // steal(): chunked byte swap of pointer-carrying structs times out in CBMC
fn qrv_once_is_single_use() {
    let v: u8 = kani::any();
    let q = qrv_fresh(PatternMatchMode::InAnyOrder, v).once();
    assert!(rep_marker(&q) == 0);
    let nb = q.wrapper.into_owned();
    check_state(&nb, 1, 1, 0, 1);
    assert!(nb.responders[0].response_index == 0);
    assert!(output_of(&nb.responders[0].responder) == Some(v));
    assert!(output_of(&nb.responders[0].responder) == None);
    assert!(output_of(&nb.responders[0].responder) == None);
    kani::cover!(true);
    core::mem::forget(nb);
}

macro_rules! qrv_multi {
    ($name:ident, $method:ident, $k:expr) => {
        /// QuantifyReturnValue::n_times / at_least_times: one returner at index 0, quantify(t, Exact|AtLeast); the stored
        /// value is REPEATABLE: every request yields Some(v) (cloned per call) (C02, C12).
        #[kani::proof]
        #[kani::unwind(3)]
        #[kani::stub(core::mem::swap, swap_stub)]
        fn $name() {
            let t: usize = kani::any();
            let v: u8 = kani::any();
            let q = qrv_fresh(PatternMatchMode::InAnyOrder, v).$method(t);
            assert!(rep_marker(&q) == $k); // the type-level marker agrees with the recorded exactness
            let nb = q.wrapper.into_owned();
            check_state(&nb, t, t, $k, 1);
            assert!(nb.responders[0].response_index == 0);
            assert!(output_of(&nb.responders[0].responder) == Some(v));
            assert!(output_of(&nb.responders[0].responder) == Some(v));
            assert!(output_of(&nb.responders[0].responder) == Some(v));
            kani::cover!(t == 0);
            kani::cover!(t > 1);
            core::mem::forget(nb);
        }
    };
}
//@K props=C02,C03,C12,C14 tier=quick label=full feat=std fn=QuantifyReturnValue::n_times
qrv_multi!(qrv_n_times_is_repeatable, n_times, 0);
//@K props=C02,C03,C12,C14 tier=quick label=full feat=std fn=QuantifyReturnValue::at_least_times
qrv_multi!(qrv_at_least_times_is_repeatable, at_least_times, 1);

/// Drop for QuantifyReturnValue (unquantified `returns(v)` inside a stub): pushes the single-use returner, no quantification.
//@K props=C02,C03,C12 tier=quick label=full feat=std fn=<QuantifyReturnValueasDrop>::drop
#[kani::proof]
#[kani::unwind(3)]
fn qrv_drop_pushes_single_use_unquantified() {
    let (mut b, s) = any_state(PatternMatchMode::InAnyOrder);
    let v: u8 = kani::any();
    {
        let q: QuantifyReturnValue<'_, F8, u8, InAnyOrder> =
            QuantifyReturnValue { wrapper: DynBuilderWrapper::Borrowed(&mut b), return_value: Some(v), mock_fn: PhantomData, ordering: InAnyOrder };
        drop(q);
    }
    check_state(&b, s.idx, s.min, s.k, 1);
    assert!(b.responders[0].response_index == s.idx);
    assert!(output_of(&b.responders[0].responder) == Some(v));
    assert!(output_of(&b.responders[0].responder) == None);
    kani::cover!(true);
    core::mem::forget(b);
}

fn dmr_of(b: DynCallPatternBuilder) -> DefineMultipleResponses<'static, F8, InAnyOrder> {
    DefineMultipleResponses { wrapper: DynBuilderWrapper::Owned(b), mock_fn: PhantomData, ordering: InAnyOrder }
}

/// DefineMultipleResponses::returns: pushes a REPEATABLE returner at the running index; no quantification.
//@K props=C02,C03,C12 tier=quick label=full feat=std fn=DefineMultipleResponses::returns
#[kani::proof]
#[kani::unwind(3)]
fn dmr_returns_is_repeatable_unquantified() {
    let (b, s) = any_state(PatternMatchMode::InAnyOrder);
    let v: u8 = kani::any();
    let nb = dmr_of(b).returns(v).wrapper.into_owned();
    check_state(&nb, s.idx, s.min, s.k, 1);
    assert!(nb.responders[0].response_index == s.idx);
    assert!(output_of(&nb.responders[0].responder) == Some(v));
    assert!(output_of(&nb.responders[0].responder) == Some(v));
    kani::cover!(true);
    core::mem::forget(nb);
}

macro_rules! response_kind {
    ($name:ident, $call:expr, $check:expr) => {
        /// One response kind: pushes exactly its own responder kind at the running index; no quantification.
        #[kani::proof]
        #[kani::unwind(3)]
        fn $name() {
            let (b, s) = any_state(PatternMatchMode::InAnyOrder);
            let d = dmr_of(b);
            let f: fn(DefineMultipleResponses<'static, F8, InAnyOrder>) -> Quantify<'static, F8, InAnyOrder> = $call;
            let nb = f(d).wrapper.into_owned();
            check_state(&nb, s.idx, s.min, s.k, 1);
            assert!(nb.responders[0].response_index == s.idx);
            let c: fn(&DynResponder) -> bool = $check;
            assert!(c(&nb.responders[0].responder));
            kani::cover!(true);
            core::mem::forget(nb);
        }
    };
}
//@K props=C02,C03 tier=quick label=full feat=std fn=DefineMultipleResponses::applies_unmocked
response_kind!(kind_unmocked, |d| d.applies_unmocked(), |r| matches!(r, DynResponder::Unmock));
//@K props=C02,C03 tier=quick label=full feat=std fn=DefineMultipleResponses::applies_default_impl
response_kind!(kind_default_impl, |d| d.applies_default_impl(), |r| matches!(r, DynResponder::ApplyDefaultImpl));
//@K props=C02,C03 tier=quick label=full feat=std fn=DefineMultipleResponses::panics
response_kind!(kind_panics, |d| d.panics("x"), |r| matches!(r, DynResponder::Panic(_)));
//@K props=C02,C03 tier=quick label=full feat=std fn=DefineMultipleResponses::answers
response_kind!(kind_answers, |d| d.answers(&|_, x| x), |r| matches!(r, DynResponder::Answer(_)));
//@K props=C02,C03 tier=quick label=full feat=std fn=DefineMultipleResponses::returns_default
response_kind!(kind_returns_default, |d| d.returns_default(), |r| output_of(r) == Some(0) && output_of(r) == Some(0));

struct CapSink(Option<DynCallPatternBuilder>, usize);
impl clause::term::Sink for CapSink {
    fn push(&mut self, _info: MockFnInfo, builder: DynCallPatternBuilder) -> Result<(), String> {
        self.0 = Some(builder);
        self.1 += 1;
        Ok(())
    }
}

/// Clause for Quantify (unquantified response used as a clause): an ORDERED pattern gets the implicit exactly-once
/// (quantify(1, Exact)); an unordered one is pushed as is.  Exactly one pattern reaches the sink (C03, C04).
//@K props=C03,C04 tier=quick label=full feat=std fn=<QuantifyasClause>::deconstruct
#[kani::proof]
#[kani::unwind(3)]
fn clause_for_quantify_implicit_once() {
    let ordered: bool = kani::any();
    let mode = if ordered { PatternMatchMode::InOrder } else { PatternMatchMode::InAnyOrder };
    let (b, s) = any_state(mode);
    kani::assume(s.idx < usize::MAX && s.min < usize::MAX);
    let q: Quantify<'static, F8, InAnyOrder> = quantify_of(b);
    let mut sink = CapSink(None, 0);
    assert!(q.deconstruct(&mut sink).is_ok());
    assert!(sink.1 == 1);
    let nb = sink.0.take().unwrap();
    assert!(nb.pattern_match_mode == s.mode);
    if ordered {
        check_state(&nb, s.idx + 1, s.min + 1, 0, 0);
    } else {
        check_state(&nb, s.idx, s.min, s.k, 0);
    }
    kani::cover!(ordered);
    kani::cover!(!ordered);
    core::mem::forget(nb);
}

/// Clause for QuantifyReturnValue (unquantified `returns(v)` as a top-level clause) == once().
//@K props=C03,C04,C12 tier=quick label=full feat=std fn=<QuantifyReturnValueasClause>::deconstruct
#[kani::proof]
#[kani::unwind(3)]
#[kani::stub(core::mem::swap, swap_stub)] // steal(): chunked byte swap of pointer-carrying structs times out in CBMC
fn clause_for_qrv_is_once() {
    let ordered: bool = kani::any();
    let mode = if ordered { PatternMatchMode::InOrder } else { PatternMatchMode::InAnyOrder };
    let v: u8 = kani::any();
    let mut sink = CapSink(None, 0);
    assert!(qrv_fresh(mode, v).deconstruct(&mut sink).is_ok());
    assert!(sink.1 == 1);
    let nb = sink.0.take().unwrap();
    assert!(nb.pattern_match_mode == mode);
    check_state(&nb, 1, 1, 0, 1);
    assert!(output_of(&nb.responders[0].responder) == Some(v));
    assert!(output_of(&nb.responders[0].responder) == None);
    kani::cover!(true);
    core::mem::forget(nb);
}

struct OrderSink([usize; 4], usize);
impl clause::term::Sink for OrderSink {
    fn push(&mut self, _info: MockFnInfo, builder: DynCallPatternBuilder) -> Result<(), String> {
        self.0[self.1] = builder.current_response_index; // identity tag set by the harness
        self.1 += 1;
        core::mem::forget(builder);
        Ok(())
    }
}

macro_rules! each_harness {
    ($name:ident, $n:expr) => {
        /// Clause for Each (C14, C01; K-bnd in the number of patterns of the stub): a stub without patterns is rejected at
        /// construction; otherwise Each::call appends and deconstruct hands the patterns to the sink in call order, each once.
        #[kani::proof]
        #[kani::unwind(6)]
        fn $name() {
            const N: usize = $n;
            let mut each: Each<F8> = Each::new();
            each.patterns.reserve(N);
            let mut i = 0;
            while i < N {
                let target = {
                    let d = each.call(&|_| {});
                    let t = d.wrapper.inner() as *const DynCallPatternBuilder;
                    core::mem::forget(d);
                    t
                };
                assert!(each.patterns.len() == i + 1);
                // the responses defined next go to the pattern just added, which is fresh and unordered
                assert!(core::ptr::eq(target, &each.patterns[i]));
                assert!(!is_in_order(&each.patterns[i].pattern_match_mode));
                check_state(&each.patterns[i], 0, 0, 1, 0);
                each.patterns[i].current_response_index = 100 + i;
                i += 1;
            }
            let mut sink = OrderSink([0; 4], 0);
            let r = each.deconstruct(&mut sink);
            if N == 0 {
                assert!(r.is_err());
                assert!(sink.1 == 0);
            } else {
                assert!(r.is_ok());
                assert!(sink.1 == N);
                let mut j = 0;
                while j < N {
                    assert!(sink.0[j] == 100 + j);
                    j += 1;
                }
            }
            kani::cover!(true);
            core::mem::forget(r);
        }
    };
}
//@K props=C14,C01 tier=quick label=bnd feat=std fn=<EachasClause>::deconstruct,Each::call bound=patterns=0
each_harness!(each_n0, 0);
//@K props=C14,C01 tier=quick label=bnd feat=std fn=<EachasClause>::deconstruct,Each::call bound=patterns=1
each_harness!(each_n1, 1);
//@K props=C14,C01 tier=thorough label=bnd feat=std fn=<EachasClause>::deconstruct,Each::call bound=patterns=2 timeout=1200
each_harness!(each_n2, 2);

/// DynBuilderWrapper::push_returner_result (C14: "a configured return that cannot be produced" is remembered and rejected at
/// construction by MockAssembler::push): Ok(returner) -> pushed at the running index; Err(e) -> nothing pushed, the FIRST error
/// is kept.
//@K props=C14,C02 tier=quick label=full feat=std fn=DynBuilderWrapper::push_returner_result
#[kani::proof]
#[kani::unwind(3)]
fn push_returner_result_contract() {
    use crate::output::{IntoReturn, OutputError};
    use crate::responder::IntoReturner;
    let (mut b, s) = any_state(PatternMatchMode::InAnyOrder);
    let pre_err: u8 = kani::any();
    kani::assume(pre_err < 3);
    b.responder_error = match pre_err {
        0 => None,
        1 => Some(OutputError::OwnershipRequired),
        _ => Some(OutputError::NoMutexApi),
    };
    let which: u8 = kani::any();
    kani::assume(which < 3);
    let mut w = DynBuilderWrapper::Owned(b);
    let v: u8 = kani::any();
    let arg: Result<crate::responder::Returner<F8>, OutputError> = match which {
        0 => Ok(IntoReturner::<F8>::into_returner(<u8 as IntoReturn<crate::output::Owning<u8>>>::into_return(v).ok().unwrap())),
        1 => Err(OutputError::OwnershipRequired),
        _ => Err(OutputError::NoMutexApi),
    };
    w.push_returner_result::<F8>(arg);
    let nb = w.into_owned();
    assert!(nb.current_response_index == s.idx);
    assert!(ch::peek_exp(&nb.count_expectation) == (s.min, s.k));
    let code = |e: &Option<OutputError>| match e {
        None => 0u8,
        Some(OutputError::OwnershipRequired) => 1,
        Some(OutputError::NoMutexApi) => 2,
    };
    if which == 0 {
        assert!(nb.responders.len() == 1);
        assert!(nb.responders[0].response_index == s.idx);
        assert!(output_of(&nb.responders[0].responder) == Some(v));
        assert!(code(&nb.responder_error) == pre_err);
    } else {
        assert!(nb.responders.len() == 0);
        assert!(code(&nb.responder_error) == if pre_err != 0 { pre_err } else { which });
    }
    kani::cover!(which == 0);
    kani::cover!(which == 2 && pre_err == 1);
    core::mem::forget(nb);
}

macro_rules! each_deconstruct_only {
    ($name:ident, $n:expr) => {
        /// Clause for Each, deconstruct only (the stub's pattern list is built directly, so larger stubs are affordable):
        /// the patterns reach the sink in DECLARATION order, each exactly once (C01, C14).
        #[kani::proof]
        #[kani::unwind(8)]
        fn $name() {
            const N: usize = $n;
            let mut patterns: Vec<DynCallPatternBuilder> = Vec::with_capacity(N);
            let mut i = 0;
            while i < N {
                let mut b = DynCallPatternBuilder::new(PatternMatchMode::InAnyOrder, ph::mk_matcher(None));
                b.current_response_index = 100 + i; // identity tag
                patterns.push(b);
                i += 1;
            }
            let each: Each<F8> = Each { patterns, mock_fn: PhantomData };
            let mut sink = OrderSink([0; 4], 0);
            let r = each.deconstruct(&mut sink);
            assert!(r.is_ok());
            assert!(sink.1 == N);
            let mut j = 0;
            while j < N {
                assert!(sink.0[j] == 100 + j);
                j += 1;
            }
            kani::cover!(true);
            core::mem::forget(r);
        }
    };
}
//@K props=C01,C14 tier=quick label=bnd feat=std fn=<EachasClause>::deconstruct bound=patterns=3
each_deconstruct_only!(each_deconstruct_n3, 3);
//@K props=C01,C14 tier=thorough label=bnd feat=std fn=<EachasClause>::deconstruct bound=patterns=4
each_deconstruct_only!(each_deconstruct_n4, 4);
