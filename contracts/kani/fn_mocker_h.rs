//@module src/fn_mocker.rs
//@needs counter_h call_pattern_h
// Tier K harness module, child of src/fn_mocker.rs.
use super::*;
#[allow(unused_imports)]
use crate::{call_pattern, debug, error, MockFnInfo};
#[allow(unused_imports)]
use crate::alloc::{vec, String, Vec};
use crate::call_pattern::__verif_call_pattern_h as ph;
use crate::counter::__verif_counter_h as ch;
use crate::error::MockError;

pub(crate) struct DummyA;
pub(crate) struct DummyB;

pub(crate) fn info_a() -> MockFnInfo {
    MockFnInfo::with_type_id(core::any::TypeId::of::<DummyA>())
}

pub(crate) fn mk_fn_mocker(mode: PatternMatchMode, patterns: Vec<call_pattern::CallPattern>) -> FnMocker {
    FnMocker { info: info_a(), pattern_match_mode: mode, call_patterns: patterns }
}

macro_rules! verify_harness {
    ($name:ident, $n:expr) => {
        /// FnMocker::verify (K-bnd in the number of patterns): `errors` gains exactly one FailedVerification per
        /// pattern whose count violates its expectation, then MockNeverCalled iff the sum of counts is 0; nothing else.
        #[kani::proof]
        #[kani::unwind(8)]
        #[kani::solver(minisat)] // measured: cadical 400 s, minisat 85 s for N = 2 (pushes at symbolic Vec length)
        #[kani::stub(::alloc::fmt::format, ch::fmt_stub)]
        fn $name() {
            const N: usize = $n;
            let mut actual = [0usize; N];
            let mut minimum = [0usize; N];
            let mut kind = [0u8; N];
            let mut patterns: Vec<call_pattern::CallPattern> = Vec::with_capacity(N);
            let mut sum: usize = 0;
            let mut n_violated: usize = 0;
            let mut i = 0;
            while i < N {
                actual[i] = kani::any();
                minimum[i] = kani::any();
                kind[i] = ch::any_exactness().1;
                kani::assume(!(kind[i] == 2 && minimum[i] == usize::MAX));
                // requires: the per-method total does not overflow
                kani::assume(actual[i] <= usize::MAX - sum);
                sum += actual[i];
                if ch::violated(actual[i], minimum[i], kind[i]) {
                    n_violated += 1;
                }
                patterns.push(ph::mk_pattern(0, 0, ch::mk_counter(actual[i], minimum[i], kind[i]), Vec::new()));
                i += 1;
            }
            let fm = mk_fn_mocker(PatternMatchMode::InAnyOrder, patterns);
            let mut errors: Vec<MockError> = Vec::with_capacity(N + 2);
            fm.verify(&mut errors);
            let never = sum == 0;
            assert!(errors.len() == n_violated + if never { 1 } else { 0 });
            // one line per violated pattern and one never-called line iff the sum is 0 (their order is not part of the property)
            let mut n_failed = 0;
            let mut n_never = 0;
            let mut j = 0;
            while j < N + 1 {
                if j < errors.len() {
                    match errors[j] {
                        MockError::MockNeverCalled { .. } => n_never += 1,
                        MockError::FailedVerification(_) => n_failed += 1,
                        _ => assert!(false),
                    }
                }
                j += 1;
            }
            assert!(n_failed == n_violated);
            assert!(n_never == if never { 1 } else { 0 });
            // frame: counters untouched
            let mut k = 0;
            while k < N {
                assert!(ch::peek(&fm.call_patterns[k].call_counter) == actual[k]);
                k += 1;
            }
            kani::cover!(never, "never-called reachable");
            kani::cover!(N == 0 || n_violated == N, "all violated reachable");
            kani::cover!(errors.len() == 0 || N == 0, "silent reachable");
            core::mem::forget(errors);
            core::mem::forget(fm);
        }
    };
}

//@K props=C03 tier=quick label=bnd feat=std fn=FnMocker::verify bound=patterns=0
verify_harness!(fm_verify_n0, 0);
//@K props=C03 tier=quick label=bnd feat=std fn=FnMocker::verify bound=patterns=1
verify_harness!(fm_verify_n1, 1);
//@K props=C03 tier=thorough label=bnd feat=std fn=FnMocker::verify bound=patterns=2 timeout=900
verify_harness!(fm_verify_n2, 2);

macro_rules! find_order_harness {
    ($name:ident, $n:expr) => {
        /// FnMocker::find_call_pattern_for_call_order (K-bnd): returns the FIRST pattern whose half-open range
        /// contains the index, None if there is none.  Ranges fully symbolic (also overlapping / empty / inverted).
        #[kani::proof]
        #[kani::unwind(8)]
        fn $name() {
            const N: usize = $n;
            let mut start = [0usize; N];
            let mut end = [0usize; N];
            let mut patterns: Vec<call_pattern::CallPattern> = Vec::with_capacity(N);
            let mut i = 0;
            while i < N {
                start[i] = kani::any();
                end[i] = kani::any();
                patterns.push(ph::mk_pattern(start[i], end[i], ch::mk_counter(0, 0, 0), Vec::new()));
                i += 1;
            }
            let fm = mk_fn_mocker(PatternMatchMode::InOrder, patterns);
            let idx: usize = kani::any();
            let r = fm.find_call_pattern_for_call_order(idx);
            let mut owner: Option<usize> = None;
            let mut j = N;
            while j > 0 {
                j -= 1;
                if start[j] <= idx && idx < end[j] {
                    owner = Some(j);
                }
            }
            match owner {
                None => assert!(r.is_none()),
                Some(o) => {
                    let (pi, p) = r.unwrap();
                    assert!(pi.0 == o);
                    assert!(core::ptr::eq(p, &fm.call_patterns[o]));
                }
            }
            kani::cover!(N == 0 || owner.is_some());
            kani::cover!(owner.is_none());
            core::mem::forget(fm);
        }
    };
}

//@K props=C04 tier=quick label=bnd feat=std fn=FnMocker::find_call_pattern_for_call_order bound=patterns=0
find_order_harness!(find_order_n0, 0);
//@K props=C04 tier=quick label=bnd feat=std fn=FnMocker::find_call_pattern_for_call_order bound=patterns=1
find_order_harness!(find_order_n1, 1);
//@K props=C04 tier=quick label=bnd feat=std fn=FnMocker::find_call_pattern_for_call_order bound=patterns=2
find_order_harness!(find_order_n2, 2);
//@K props=C04 tier=quick label=bnd feat=std fn=FnMocker::find_call_pattern_for_call_order bound=patterns=3
find_order_harness!(find_order_n3, 3);
//@K props=C04 tier=quick label=bnd feat=std fn=FnMocker::find_call_pattern_for_call_order bound=patterns=4
find_order_harness!(find_order_n4, 4);
//@K props=C04 tier=thorough label=bnd feat=std fn=FnMocker::find_call_pattern_for_call_order bound=patterns=6
find_order_harness!(find_order_n6, 6);
