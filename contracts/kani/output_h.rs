//@module src/output.rs
// Tier K harness module, child of src/output.rs: contracts of the conversions into stored form and back out
// (IntoReturnOnce / IntoReturn / GetOutput) per container x leaf kind (C12, C17).
use super::*;
#[allow(unused_imports)]
use crate::alloc::{vec, String, Vec};
use core::task::Poll;

fn once<K: Kind, T: IntoReturnOnce<K>>(v: T) -> K::Return {
    match v.into_return_once() {
        Ok(r) => r,
        Err(_) => {
            assert!(false);
            loop {}
        }
    }
}

fn multi<K: Kind, T: IntoReturn<K>>(v: T) -> K::Return {
    match v.into_return() {
        Ok(r) => r,
        Err(_) => {
            assert!(false);
            loop {}
        }
    }
}

// ------------------------------------------------------------------ leaves

/// Owning, single-use path: Some(v) exactly once, then None forever (C12).
//@K props=C12,C02,C17 tier=quick label=full feat=std fn=<T0asIntoReturnOnce<Owning<T>>>::into_return_once,Owned::output
#[kani::proof]
#[kani::unwind(3)]
fn owning_once() {
    let v: u8 = kani::any();
    let r = once::<Owning<u8>, u8>(v);
    assert!(r.output() == Some(v));
    assert!(r.output() == None);
    assert!(r.output() == None);
    kani::cover!(true);
}

/// Owning, repeatable path: Some(v) on every request; the stored original stays intact (C12).
//@K props=C12,C02,C17 tier=quick label=full feat=std fn=<T0asIntoReturn<Owning<T>>>::into_return,Owned::output
#[kani::proof]
#[kani::unwind(3)]
fn owning_multi() {
    let v: u8 = kani::any();
    let r = multi::<Owning<u8>, u8>(v);
    assert!(r.output() == Some(v));
    assert!(r.output() == Some(v));
    assert!(r.output() == Some(v));
    kani::cover!(true);
}

/// Lending / StaticRef leaves: the same borrowed value on every request, through either path (C17).
//@K props=C17 tier=quick label=full feat=std fn=Lent::output,Reference::output
#[kani::proof]
#[kani::unwind(3)]
fn borrowed_leaves() {
    static S: u8 = 77;
    let v: u8 = kani::any();
    let l1 = once::<Lending<u8>, u8>(v);
    let l2 = multi::<Lending<u8>, u8>(v);
    let s1 = once::<StaticRef<u8>, &'static u8>(&S);
    let s2 = multi::<StaticRef<u8>, &'static u8>(&S);
    let a = l1.output().unwrap();
    let b = l1.output().unwrap();
    assert!(*a == v && *b == v && core::ptr::eq(a, b));
    assert!(*l2.output().unwrap() == v && *l2.output().unwrap() == v);
    assert!(core::ptr::eq(s1.output().unwrap(), &S) && core::ptr::eq(s1.output().unwrap(), &S));
    assert!(core::ptr::eq(s2.output().unwrap(), &S));
    kani::cover!(true);
}

static DROPS: core::sync::atomic::AtomicUsize = core::sync::atomic::AtomicUsize::new(0);
struct Counted(u8);
impl Drop for Counted {
    fn drop(&mut self) {
        DROPS.fetch_add(1, core::sync::atomic::Ordering::SeqCst);
    }
}
fn drops() -> usize {
    DROPS.load(core::sync::atomic::Ordering::SeqCst)
}

/// A single-use value is handed out at most once and dropped exactly once overall, whether it is requested 0, 1 or 2 times (C12).
//@K props=C12,C02 tier=quick label=full feat=std fn=<T0asIntoReturnOnce<Owning<T>>>::into_return_once[drop-count]
#[kani::proof]
#[kani::unwind(3)]
fn owning_once_drops_exactly_once() {
    let requests: u8 = kani::any();
    kani::assume(requests <= 2);
    let before = drops();
    {
        let r = once::<Owning<Counted>, Counted>(Counted(kani::any()));
        let mut delivered = 0;
        let mut i = 0;
        while i < requests {
            if let Some(c) = r.output() {
                delivered += 1;
                assert!(drops() == before); // not dropped while the caller holds it
                drop(c);
                assert!(drops() == before + 1);
            }
            i += 1;
        }
        assert!(delivered == if requests == 0 { 0 } else { 1 });
    }
    assert!(drops() == before + 1);
    kani::cover!(requests == 0);
    kani::cover!(requests == 2);
}

// ------------------------------------------------------------------ composites
fn any_opt() -> Option<u8> {
    if kani::any() { Some(kani::any()) } else { None }
}
fn any_res() -> Result<u8, i8> {
    if kani::any() { Ok(kani::any()) } else { Err(kani::any()) }
}
fn any_poll() -> Poll<u8> {
    if kani::any() { Poll::Ready(kani::any()) } else { Poll::Pending }
}

/// Deep<Option<Owning>>: delivered shape-for-shape; after a single-use delivery it is None exactly when an owned leaf was consumed.
//@K props=C12,C17,C02 tier=quick label=full feat=std fn=deep::option::{into_return_once,into_return,output}
#[kani::proof]
#[kani::unwind(3)]
fn deep_option_owning() {
    let v = any_opt();
    let r1 = once::<Deep<Option<Owning<u8>>>, Option<u8>>(v);
    assert!(r1.output() == Some(v));
    assert!(r1.output() == if v.is_some() { None } else { Some(None) });
    let r2 = multi::<Deep<Option<Owning<u8>>>, Option<u8>>(v);
    assert!(r2.output() == Some(v));
    assert!(r2.output() == Some(v));
    kani::cover!(v.is_some());
    kani::cover!(v.is_none());
}

/// Deep<Result<Owning, Owning>>: same variant, same leaf; single-use in both variants.
//@K props=C12,C17,C02 tier=quick label=full feat=std fn=deep::result::{into_return_once,into_return,output}
#[kani::proof]
#[kani::unwind(3)]
fn deep_result_owning() {
    let v = any_res();
    let r1 = once::<Deep<Result<Owning<u8>, Owning<i8>>>, Result<u8, i8>>(v);
    assert!(r1.output() == Some(v));
    assert!(r1.output() == None);
    let r2 = multi::<Deep<Result<Owning<u8>, Owning<i8>>>, Result<u8, i8>>(v);
    assert!(r2.output() == Some(v));
    assert!(r2.output() == Some(v));
    kani::cover!(v.is_ok());
    kani::cover!(v.is_err());
}

fn eq_res_ref(o: Option<Result<&u8, i8>>, v: Result<u8, i8>) -> bool {
    match (o, v) {
        (Some(Ok(a)), Ok(b)) => *a == b,
        (Some(Err(a)), Err(b)) => a == b,
        _ => false,
    }
}

/// Deep<Result<Lending, Owning>> (borrowed Ok leaf, owned Err leaf): a borrowed leaf can be returned on every call; the owned
/// Err leaf is single-use exactly on the single-use path.
//@K props=C12,C17,C02 tier=quick label=full feat=std fn=deep::result::{into_return_once,into_return,output}[mixed]
#[kani::proof]
#[kani::unwind(3)]
fn deep_result_mixed() {
    let v = any_res();
    let r1 = once::<Deep<Result<Lending<u8>, Owning<i8>>>, Result<u8, i8>>(v);
    assert!(eq_res_ref(r1.output(), v));
    if v.is_ok() {
        assert!(eq_res_ref(r1.output(), v));
    } else {
        assert!(r1.output().is_none());
    }
    let r2 = multi::<Deep<Result<Lending<u8>, Owning<i8>>>, Result<u8, i8>>(v);
    assert!(eq_res_ref(r2.output(), v));
    assert!(eq_res_ref(r2.output(), v));
    kani::cover!(v.is_ok());
    kani::cover!(v.is_err());
}

/// Shallow<Result<&T, E>>: same contract as the mixed deep result.
//@K props=C12,C17,C02 tier=quick label=full feat=std fn=shallow::result::{into_return_once,into_return,output}
#[kani::proof]
#[kani::unwind(3)]
fn shallow_result() {
    let v = any_res();
    let r1 = once::<Shallow<Result<&'static u8, i8>>, Result<u8, i8>>(v);
    assert!(eq_res_ref(r1.output(), v));
    if v.is_ok() {
        assert!(eq_res_ref(r1.output(), v));
    } else {
        assert!(r1.output().is_none());
    }
    let r2 = multi::<Shallow<Result<&'static u8, i8>>, Result<u8, i8>>(v);
    assert!(eq_res_ref(r2.output(), v));
    assert!(eq_res_ref(r2.output(), v));
    kani::cover!(v.is_ok());
    kani::cover!(v.is_err());
}

/// Shallow<Option<&T>>: Some/None preserved, leaf value preserved, every call.
//@K props=C17 tier=quick label=full feat=std fn=shallow::option::{into_return_once,into_return,output}
#[kani::proof]
#[kani::unwind(3)]
fn shallow_option() {
    let v = any_opt();
    let r1 = once::<Shallow<Option<&'static u8>>, Option<u8>>(v);
    let r2 = multi::<Shallow<Option<&'static u8>>, Option<u8>>(v);
    let mut i = 0;
    while i < 2 {
        match (r1.output(), r2.output(), v) {
            (Some(Some(a)), Some(Some(b)), Some(c)) => assert!(*a == c && *b == c),
            (Some(None), Some(None), None) => {}
            _ => assert!(false),
        }
        i += 1;
    }
    kani::cover!(v.is_some());
    kani::cover!(v.is_none());
}

/// Deep<Poll<Owning>>: Ready/Pending preserved; single-use on the single-use path only, repeatable on the Clone path.
//@K props=C12,C17,C02 tier=quick label=full feat=std fn=deep::poll::{into_return_once,into_return,output}
#[kani::proof]
#[kani::unwind(3)]
fn deep_poll_owning() {
    let v = any_poll();
    let r1 = once::<Deep<Poll<Owning<u8>>>, Poll<u8>>(v);
    assert!(r1.output() == Some(v));
    assert!(r1.output() == if v.is_ready() { None } else { Some(Poll::Pending) });
    let r2 = multi::<Deep<Poll<Owning<u8>>>, Poll<u8>>(v);
    assert!(r2.output() == Some(v));
    assert!(r2.output() == Some(v));
    kani::cover!(v.is_ready());
    kani::cover!(v.is_pending());
}

/// Deep tuples (arity 2 and 4): every slot keeps its own value (no transposition); owned + borrowed mix; single-use exactly on
/// the single-use path.
//@K props=C12,C17,C02 tier=quick label=full feat=std fn=deep::tuples::{into_return_once,into_return,output}
#[kani::proof]
#[kani::unwind(3)]
fn deep_tuples() {
    let (a, b, c, d): (u8, u8, u8, u8) = (kani::any(), kani::any(), kani::any(), kani::any());
    let r1 = once::<Deep<(Owning<u8>, Lending<u8>)>, (u8, u8)>((a, b));
    match r1.output() {
        Some((x, y)) => assert!(x == a && *y == b),
        None => assert!(false),
    }
    assert!(r1.output().is_none());
    let r2 = multi::<Deep<(Owning<u8>, Lending<u8>)>, (u8, u8)>((a, b));
    let mut i = 0;
    while i < 2 {
        match r2.output() {
            Some((x, y)) => assert!(x == a && *y == b),
            None => assert!(false),
        }
        i += 1;
    }
    let r4 = multi::<Deep<(Owning<u8>, Owning<u8>, Lending<u8>, Owning<u8>)>, (u8, u8, u8, u8)>((a, b, c, d));
    let mut j = 0;
    while j < 2 {
        match r4.output() {
            Some((w, x, y, z)) => assert!(w == a && x == b && *y == c && z == d),
            None => assert!(false),
        }
        j += 1;
    }
    let r4o = once::<Deep<(Lending<u8>, Lending<u8>, Lending<u8>, Owning<u8>)>, (u8, u8, u8, u8)>((a, b, c, d));
    match r4o.output() {
        Some((w, x, y, z)) => assert!(*w == a && *x == b && *y == c && z == d),
        None => assert!(false),
    }
    assert!(r4o.output().is_none());
    kani::cover!(a != b && c != d);
}

/// Lent leaf whose `borrow()` issues, the first time it runs, a second (competing) request on the very tuple it is part of -
/// the schedule "the loser runs between the winner's leaf 0 and leaf 2", made sequential and deterministic.
struct Reenter {
    value: u8,
    entered: core::sync::atomic::AtomicBool,
    loser_got_none: core::sync::atomic::AtomicBool,
}

type Triple = <Deep<(Owning<u8>, Lending<u8>, Owning<u8>)> as Kind>::Return;
static TRIPLE: std::sync::Mutex<Option<&'static Triple>> = std::sync::Mutex::new(None);

impl core::borrow::Borrow<u8> for Reenter {
    fn borrow(&self) -> &u8 {
        use core::sync::atomic::Ordering::SeqCst;
        if !self.entered.swap(true, SeqCst) {
            let t: Option<&'static Triple> = *TRIPLE.lock().unwrap();
            if let Some(t) = t {
                self.loser_got_none.store(t.output().is_none(), SeqCst);
            }
        }
        &self.value
    }
}

/// Deep tuple, single-use, two owned leaves around a lent one: a request that finds leaf 0 already moved out fails WITHOUT
/// touching the later single-use leaves (frame of a failed request), so the request in progress that took leaf 0 still
/// receives the whole value: delivered to exactly one requester under the interleaving above (C12).
//@K props=C12 tier=quick label=full feat=std fn=deep::tuples::output[failed-request-frame]
#[kani::proof]
#[kani::unwind(3)]
fn deep_tuple_failed_request_consumes_nothing() {
    let (a, b, c): (u8, u8, u8) = (kani::any(), kani::any(), kani::any());
    let gate = Reenter {
        value: b,
        entered: core::sync::atomic::AtomicBool::new(false),
        loser_got_none: core::sync::atomic::AtomicBool::new(false),
    };
    let r: &'static Triple =
        Box::leak(Box::new(once::<Deep<(Owning<u8>, Lending<u8>, Owning<u8>)>, (u8, Reenter, u8)>((a, gate, c))));
    *TRIPLE.lock().unwrap() = Some(r);
    match r.output() {
        Some((x, y, z)) => assert!(x == a && *y == b && z == c),
        None => assert!(false),
    }
    assert!(r.output().is_none());
    kani::cover!(a != c);
}

macro_rules! deep_vec_harness {
    ($name:ident, $n:expr) => {
        /// Deep<Vec<Owning>> (K-bnd in the element count): same element count and order, same leaf values; after a single-use
        /// delivery every further request yields None (never a shortened vector) unless the vector is empty; repeatable path:
        /// equal on every request.
        #[kani::proof]
        #[kani::unwind(7)]
        fn $name() {
            const N: usize = $n;
            let mut vals = [0u8; N];
            let mut v1: Vec<u8> = Vec::with_capacity(N);
            let mut v2: Vec<u8> = Vec::with_capacity(N);
            let mut i = 0;
            while i < N {
                vals[i] = kani::any();
                v1.push(vals[i]);
                v2.push(vals[i]);
                i += 1;
            }
            let r1 = once::<Deep<Vec<Owning<u8>>>, Vec<u8>>(v1);
            let o = r1.output().unwrap();
            assert!(o.len() == N);
            let mut j = 0;
            while j < N {
                assert!(o[j] == vals[j]);
                j += 1;
            }
            match r1.output() {
                None => assert!(N > 0),
                Some(again) => assert!(N == 0 && again.len() == 0),
            }
            let r2 = multi::<Deep<Vec<Owning<u8>>>, Vec<u8>>(v2);
            let mut k = 0;
            while k < 2 {
                let o2 = r2.output().unwrap();
                assert!(o2.len() == N);
                let mut j = 0;
                while j < N {
                    assert!(o2[j] == vals[j]);
                    j += 1;
                }
                k += 1;
            }
            kani::cover!(true);
        }
    };
}
//@K props=C12,C17,C02 tier=quick label=bnd feat=std fn=deep::vec::{into_return_once,into_return,output} bound=len=0
deep_vec_harness!(deep_vec_n0, 0);
//@K props=C12,C17,C02 tier=quick label=bnd feat=std fn=deep::vec::{into_return_once,into_return,output} bound=len=2
deep_vec_harness!(deep_vec_n2, 2);
//@K props=C12,C17,C02 tier=thorough label=bnd feat=std fn=deep::vec::{into_return_once,into_return,output} bound=len=3 timeout=1200
deep_vec_harness!(deep_vec_n3, 3);

macro_rules! shallow_vec_harness {
    ($name:ident, $n:expr) => {
        /// Shallow<Vec<&T>> (K-bnd): same count, order and leaf values on every request, both paths.
        #[kani::proof]
        #[kani::unwind(7)]
        fn $name() {
            const N: usize = $n;
            let mut vals = [0u8; N];
            let mut v1: Vec<u8> = Vec::with_capacity(N);
            let mut v2: Vec<u8> = Vec::with_capacity(N);
            let mut i = 0;
            while i < N {
                vals[i] = kani::any();
                v1.push(vals[i]);
                v2.push(vals[i]);
                i += 1;
            }
            let r1 = once::<Shallow<Vec<&'static u8>>, Vec<u8>>(v1);
            let r2 = multi::<Shallow<Vec<&'static u8>>, Vec<u8>>(v2);
            let mut k = 0;
            while k < 2 {
                let o1 = r1.output().unwrap();
                let o2 = r2.output().unwrap();
                assert!(o1.len() == N && o2.len() == N);
                let mut j = 0;
                while j < N {
                    assert!(*o1[j] == vals[j] && *o2[j] == vals[j]);
                    j += 1;
                }
                k += 1;
            }
            kani::cover!(true);
        }
    };
}
//@K props=C17 tier=quick label=bnd feat=std fn=shallow::vec::{into_return_once,into_return,output} bound=len=2
shallow_vec_harness!(shallow_vec_n2, 2);
//@K props=C17 tier=thorough label=bnd feat=std fn=shallow::vec::{into_return_once,into_return,output} bound=len=3 timeout=1200
shallow_vec_harness!(shallow_vec_n3, 3);

/// Nesting of depth 2: Deep<Option<Deep<Result<Lending, Owning>>>>.
//@K props=C17,C12,C02 tier=quick label=full feat=std fn=deep::option+deep::result[nested]
#[kani::proof]
#[kani::unwind(3)]
fn deep_nested() {
    let v: Option<Result<u8, i8>> = if kani::any() { Some(any_res()) } else { None };
    let r = once::<Deep<Option<Deep<Result<Lending<u8>, Owning<i8>>>>>, Option<Result<u8, i8>>>(v);
    match (r.output(), v) {
        (Some(None), None) => {}
        (Some(Some(inner)), Some(w)) => assert!(eq_res_ref(Some(inner), w)),
        _ => assert!(false),
    }
    match v {
        Some(Err(_)) => assert!(r.output().is_none()),
        _ => assert!(r.output().is_some()),
    }
    kani::cover!(matches!(v, Some(Err(_))));
    kani::cover!(matches!(v, Some(Ok(_))));
}

/// Feature set WITHOUT a mutex API (no std, no spin-lock): a single-use owned return cannot be produced; the conversion
/// reports Err(NoMutexApi) (which MockAssembler::push turns into a construction failure, see push_rejects_responder_error),
/// while the Clone-based path still works (C14).
//@K props=C14 tier=thorough label=full feat=nomutex fn=<T0asIntoReturnOnce<Owning<T>>>::into_return_once[no-mutex-api]
#[kani::proof]
#[kani::unwind(3)]
fn owning_once_without_mutex_api() {
    let v: u8 = kani::any();
    let r = <u8 as IntoReturnOnce<Owning<u8>>>::into_return_once(v);
    assert!(matches!(r, Err(OutputError::NoMutexApi)));
    let m = multi::<Owning<u8>, u8>(v);
    assert!(m.output() == Some(v));
    kani::cover!(true);
}
