#!/bin/sh
# Nothing to build: the framework is Python + templates; Verus and Kani are pre-installed.
# Warm check that the tools answer offline.
set -e
cd "$(dirname "$0")"
verus --version >/dev/null
CARGO_NET_OFFLINE=true cargo kani --version >/dev/null
mkdir -p evidence replay
echo setup ok
